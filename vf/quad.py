"""First-principles reference fields by numerical quadrature (DESIGN.md 4.1).

Magnets:   H(r) = 1/(4 pi) * closed-integral sigma(r') (r - r') / |r - r'|^3 dS',  sigma = M.n,
           B = mu0*H + J*[r inside]
Currents:  H(r) = I/(4 pi) * integral dl' x (r - r') / |r - r'|^3
Dipole:    closed form.

Every surface patch is a smooth map of the unit square, every line patch of the unit
interval.  Rule: adaptive quadtree (bisection in 1-D) in parameter space - a cell is split
while its physical diameter exceeds theta times the distance from its centre to the
observer - with an n x n Gauss-Legendre rule per leaf.  Each value is computed with two
settings; their difference is the error estimate (oracle-inconclusive when too large).

Independent of the code under test: geometry, normals (harness' own signed-volume
orientation), inside predicate and the integrals are all formed here; mu0 is passed in.
"""
from __future__ import annotations

import numpy as np

from vf import geom

SETTINGS = ((0.5, 6), (0.35, 10))  # (theta, n) coarse / fine
MAX_DEPTH = 60
_GL = {}


def _gl(n):
    if n not in _GL:
        x, w = np.polynomial.legendre.leggauss(n)
        _GL[n] = (0.5 * (x + 1.0), 0.5 * w)
    return _GL[n]


# ------------------------------------------------------------------------------ patches


class QuadPatch:
    """bilinear planar quadrilateral P0,P1,P2,P3 with constant unit normal n"""

    def __init__(self, P, n):
        self.P = np.asarray(P, dtype=float)
        self.n = np.asarray(n, dtype=float)

    def X(self, u, v):
        P = self.P
        u, v = u[:, None], v[:, None]
        return (1 - u) * (1 - v) * P[0] + u * (1 - v) * P[1] + u * v * P[2] + (1 - u) * v * P[3]

    def dS(self, u, v):
        P = self.P
        u, v = u[:, None], v[:, None]
        Xu = (1 - v) * (P[1] - P[0]) + v * (P[2] - P[3])
        Xv = (1 - u) * (P[3] - P[0]) + u * (P[2] - P[1])
        return np.linalg.norm(np.cross(Xu, Xv), axis=1)

    def normal(self, u, v):
        return np.broadcast_to(self.n, (len(u), 3))


class MantlePatch:
    """cylinder mantle r=R, phi in [p0,p1], z in [z0,z1]; normal sign*e_r"""

    INIT = (4, 1)

    def __init__(self, R, p0, p1, z0, z1, sign):
        self.R, self.p0, self.p1, self.z0, self.z1, self.sign = R, p0, p1, z0, z1, sign

    def X(self, u, v):
        ph = self.p0 + u * (self.p1 - self.p0)
        z = self.z0 + v * (self.z1 - self.z0)
        return np.stack([self.R * np.cos(ph), self.R * np.sin(ph), z], axis=1)

    def dS(self, u, v):
        return np.full(len(u), self.R * abs(self.p1 - self.p0) * abs(self.z1 - self.z0))

    def normal(self, u, v):
        ph = self.p0 + u * (self.p1 - self.p0)
        return self.sign * np.stack([np.cos(ph), np.sin(ph), np.zeros_like(ph)], axis=1)


class AnnulusPatch:
    """annular sector r in [r0,r1], phi in [p0,p1] at height z; normal sign*e_z"""

    INIT = (1, 4)

    def __init__(self, r0, r1, p0, p1, z, sign):
        self.r0, self.r1, self.p0, self.p1, self.z, self.sign = r0, r1, p0, p1, z, sign

    def X(self, u, v):
        r = self.r0 + u * (self.r1 - self.r0)
        ph = self.p0 + v * (self.p1 - self.p0)
        return np.stack([r * np.cos(ph), r * np.sin(ph), np.full_like(r, self.z)], axis=1)

    def dS(self, u, v):
        r = self.r0 + u * (self.r1 - self.r0)
        return r * abs(self.r1 - self.r0) * abs(self.p1 - self.p0)

    def normal(self, u, v):
        return np.broadcast_to(np.array([0.0, 0.0, float(self.sign)]), (len(u), 3))


class SpherePatch:
    """gnomonic cube-face patch of a sphere of radius R; face axis k, sign s"""

    INIT = (4, 4)

    def __init__(self, R, k, s):
        self.R, self.k, self.s = R, k, s

    def _p(self, u, v):
        a, b = 2 * u - 1, 2 * v - 1
        p = np.zeros((len(u), 3))
        p[:, self.k] = self.s
        p[:, (self.k + 1) % 3] = a
        p[:, (self.k + 2) % 3] = b
        return p

    def X(self, u, v):
        p = self._p(u, v)
        return self.R * p / np.linalg.norm(p, axis=1, keepdims=True)

    def dS(self, u, v):
        p = self._p(u, v)
        return 4.0 * self.R**2 / np.linalg.norm(p, axis=1) ** 3

    def normal(self, u, v):
        p = self._p(u, v)
        return p / np.linalg.norm(p, axis=1, keepdims=True)


class SegmentLine:
    def __init__(self, A, B):
        self.A, self.B = np.asarray(A, dtype=float), np.asarray(B, dtype=float)

    def X(self, t):
        return self.A + t[:, None] * (self.B - self.A)

    def dl(self, t):
        return np.broadcast_to(self.B - self.A, (len(t), 3))


class ArcLine:
    INIT = 4

    def __init__(self, R, p0, p1):
        self.R, self.p0, self.p1 = R, p0, p1

    def X(self, t):
        ph = self.p0 + t * (self.p1 - self.p0)
        return np.stack([self.R * np.cos(ph), self.R * np.sin(ph), np.zeros_like(ph)], axis=1)

    def dl(self, t):
        ph = self.p0 + t * (self.p1 - self.p0)
        return (self.p1 - self.p0) * self.R * np.stack([-np.sin(ph), np.cos(ph), np.zeros_like(ph)], axis=1)


def triangle_patches(tri, n):
    A, B, C = tri
    G = (A + B + C) / 3.0
    Mab, Mbc, Mca = (A + B) / 2, (B + C) / 2, (C + A) / 2
    return [QuadPatch([A, Mab, G, Mca], n), QuadPatch([B, Mbc, G, Mab], n), QuadPatch([C, Mca, G, Mbc], n)]


def surface_patches(spec):
    """patches with OUTWARD normals of the body of a magnet spec (local frame)"""
    cls = spec["cls"]
    body = geom.body_from_spec(spec)
    if isinstance(body, geom.Polyhedron):
        out = []
        for tri, n in zip(body.tris, body.normal):
            out.extend(triangle_patches(tri, n))
        return out
    if isinstance(body, geom.SphereBody):
        return [SpherePatch(body.R, k, s) for k in range(3) for s in (1.0, -1.0)]
    if isinstance(body, geom.CylSeg):
        r1, r2, h = body.r1, body.r2, body.h
        p1, p2 = (0.0, geom.TWO_PI) if body.full else (body.phi1, body.phi2)
        npc = max(1, int(np.ceil((p2 - p1) / (np.pi / 2) - 1e-12)))
        edges = np.linspace(p1, p2, npc + 1)
        out = []
        for a, b in zip(edges[:-1], edges[1:]):
            out.append(AnnulusPatch(r1, r2, a, b, h / 2, +1))
            out.append(AnnulusPatch(r1, r2, a, b, -h / 2, -1))
            out.append(MantlePatch(r2, a, b, -h / 2, h / 2, +1))
            if r1 > 0:
                out.append(MantlePatch(r1, a, b, -h / 2, h / 2, -1))
        if not body.full:
            for ang, sgn in ((body.phi1, 1.0), (body.phi2, -1.0)):
                er = np.array([np.cos(ang), np.sin(ang), 0.0])
                n = sgn * np.array([np.sin(ang), -np.cos(ang), 0.0])
                ez = np.array([0.0, 0.0, 1.0])
                P = [r1 * er - h / 2 * ez, r2 * er - h / 2 * ez, r2 * er + h / 2 * ez, r1 * er + h / 2 * ez]
                out.append(QuadPatch(P, n))
        return out
    raise ValueError(cls)


def line_patches(spec):
    cls = spec["cls"]
    if cls == "Circle":
        R = spec["diameter"] / 2
        e = np.linspace(0, geom.TWO_PI, 5)
        return [ArcLine(R, a, b) for a, b in zip(e[:-1], e[1:])]
    if cls == "Polyline":
        V = np.asarray(spec["vertices"], dtype=float)
        return [SegmentLine(a, b) for a, b in zip(V[:-1], V[1:]) if np.any(a != b)]
    raise ValueError(cls)


# ------------------------------------------------------------------------------ rules


def _initial_cells(patch):
    """curved patches start from a uniform grid (angular span <= pi/8 per cell), so that the
    Gauss-Legendre rule resolves the curvature also when the observer is far away"""
    ku, kv = getattr(patch, "INIT", (1, 1))
    eu, ev = np.linspace(0, 1, ku + 1), np.linspace(0, 1, kv + 1)
    return np.array([[eu[i], eu[i + 1], ev[j], ev[j + 1]] for i in range(ku) for j in range(kv)])


def _leaves_2d(patch, obs, theta):
    """adaptive quadtree: arrays (u0,u1,v0,v1) of leaf cells"""
    cells = _initial_cells(patch)
    leaves = []
    for _depth in range(MAX_DEPTH):
        if len(cells) == 0:
            break
        u0, u1, v0, v1 = cells.T
        uc, vc = 0.5 * (u0 + u1), 0.5 * (v0 + v1)
        c = patch.X(uc, vc)
        c00, c11 = patch.X(u0, v0), patch.X(u1, v1)
        c01, c10 = patch.X(u0, v1), patch.X(u1, v0)
        diam = np.maximum(np.linalg.norm(c11 - c00, axis=1), np.linalg.norm(c10 - c01, axis=1))
        # distance of the observer from the cell: centre distance minus half diameter, at least
        # a fraction of the centre distance
        dist = np.linalg.norm(c - obs, axis=1)
        split = diam > theta * np.maximum(dist - 0.5 * diam, 0.25 * dist)
        leaves.append(cells[~split])
        s = cells[split]
        if len(s) == 0:
            cells = s
            break
        su, sv = 0.5 * (s[:, 0] + s[:, 1]), 0.5 * (s[:, 2] + s[:, 3])
        cells = np.concatenate([
            np.stack([s[:, 0], su, s[:, 2], sv], 1), np.stack([su, s[:, 1], s[:, 2], sv], 1),
            np.stack([s[:, 0], su, sv, s[:, 3]], 1), np.stack([su, s[:, 1], sv, s[:, 3]], 1)])
    else:
        leaves.append(cells)
    return np.concatenate(leaves) if leaves else np.zeros((0, 4))


def _surface_integral(patch, obs, Mvec, theta, n):
    """(1/4pi) int sigma (r - r')/|r - r'|^3 dS over one patch; returns (H (3,), nodes)"""
    L = _leaves_2d(patch, obs, theta)
    x, w = _gl(n)
    du, dv = L[:, 1] - L[:, 0], L[:, 3] - L[:, 2]
    U = (L[:, 0, None, None] + du[:, None, None] * x[None, :, None]) + 0 * x[None, None, :]
    V = (L[:, 2, None, None] + dv[:, None, None] * x[None, None, :]) + 0 * x[None, :, None]
    W = (du * dv)[:, None, None] * w[None, :, None] * w[None, None, :]
    u, v, wt = U.ravel(), V.ravel(), W.ravel()
    X = patch.X(u, v)
    sig = patch.normal(u, v) @ Mvec
    d = obs - X
    r3 = np.linalg.norm(d, axis=1) ** 3
    f = (sig * patch.dS(u, v) * wt / r3)[:, None] * d
    return f.sum(0) / (4 * np.pi), len(u)


def _leaves_1d(line, obs, theta):
    k = getattr(line, "INIT", 1)
    e = np.linspace(0, 1, k + 1)
    cells = np.stack([e[:-1], e[1:]], 1)
    leaves = []
    for _depth in range(MAX_DEPTH):
        if len(cells) == 0:
            break
        a, b = cells.T
        c = line.X(0.5 * (a + b))
        diam = np.linalg.norm(line.X(b) - line.X(a), axis=1)
        # arcs: chord underestimates; use tangent length as well
        tl = np.linalg.norm(line.dl(0.5 * (a + b)), axis=1) * (b - a)
        diam = np.maximum(diam, tl)
        dist = np.linalg.norm(c - obs, axis=1)
        split = diam > theta * np.maximum(dist - 0.5 * diam, 0.25 * dist)
        leaves.append(cells[~split])
        s = cells[split]
        m = 0.5 * (s[:, 0] + s[:, 1])
        cells = np.concatenate([np.stack([s[:, 0], m], 1), np.stack([m, s[:, 1]], 1)]) if len(s) else s
    else:
        leaves.append(cells)
    return np.concatenate(leaves) if leaves else np.zeros((0, 2))


def _line_integral(line, obs, theta, n):
    """(1/4pi) int dl x (r - r')/|r - r'|^3 over one line patch (unit current)"""
    L = _leaves_1d(line, obs, theta)
    x, w = _gl(n)
    dt = L[:, 1] - L[:, 0]
    T = (L[:, 0, None] + dt[:, None] * x[None, :]).ravel()
    W = (dt[:, None] * w[None, :]).ravel()
    X = line.X(T)
    d = obs - X
    r3 = np.linalg.norm(d, axis=1) ** 3
    f = np.cross(line.dl(T), d) * (W / r3)[:, None]
    return f.sum(0) / (4 * np.pi), len(T)


# ------------------------------------------------------------------------------ public


def reference_HB(spec, obs_local, mu0):
    """(H, B, errH, errB) from one integration"""
    H, eH = reference_field(spec, obs_local, "H", mu0)
    B = mu0 * H
    if "polarization" in spec and spec["cls"] != "Triangle":
        ins = geom.body_from_spec(spec).inside(np.atleast_2d(np.asarray(obs_local, dtype=float)))
        B[ins] += np.asarray(spec["polarization"], dtype=float)
    return H, B, eH, mu0 * eH


def reference_field(spec, obs_local, field, mu0):
    """Reference field in the LOCAL frame of the source.

    returns (F (N,3), err (N,)) : fine-setting value and |fine - coarse| (max norm)."""
    obs_local = np.atleast_2d(np.asarray(obs_local, dtype=float))
    cls = spec["cls"]
    N = len(obs_local)
    F = np.zeros((N, 3))
    E = np.zeros(N)
    if cls == "Dipole":
        m = np.asarray(spec["moment"], dtype=float)
        r = obs_local
        rn = np.linalg.norm(r, axis=1, keepdims=True)
        H = (3 * r * (r @ m)[:, None] / rn**5 - m / rn**3) / (4 * np.pi)
        return (mu0 * H if field == "B" else H), E
    if cls in ("Circle", "Polyline"):
        lines = line_patches(spec)
        cur = float(spec["current"])
        for i, o in enumerate(obs_local):
            vals = []
            for theta, n in SETTINGS:
                tot = np.zeros(3)
                for ln in lines:
                    h, _ = _line_integral(ln, o, theta, n)
                    tot += h
                vals.append(cur * tot)
            F[i] = vals[1]
            E[i] = np.max(np.abs(vals[1] - vals[0]))
        if field == "B":
            return mu0 * F, mu0 * E
        return F, E
    # magnets and the triangle sheet
    pol = np.asarray(spec["polarization"], dtype=float)
    M = pol / mu0
    body = geom.body_from_spec(spec)
    if cls == "Triangle":
        V = np.asarray(spec["vertices"], dtype=float)
        n = geom.unit(np.cross(V[1] - V[0], V[2] - V[0]))  # right-hand rule of the given vertex order
        patches = triangle_patches(V, n)
        inside = np.zeros(N, dtype=bool)
    else:
        patches = surface_patches(spec)
        inside = body.inside(obs_local)
    for i, o in enumerate(obs_local):
        vals = []
        for theta, n in SETTINGS:
            tot = np.zeros(3)
            for p in patches:
                h, _ = _surface_integral(p, o, M, theta, n)
                tot += h
            vals.append(tot)
        F[i] = vals[1]
        E[i] = np.max(np.abs(vals[1] - vals[0]))
    if field == "H":
        return F, E
    B = mu0 * F
    B[inside] += pol
    return B, mu0 * E


def self_test(mu0):
    """Oracle self-tests against closed forms (exit 2 via exception when they fail)."""
    # sphere: uniform inside (H = -M/3), dipole outside
    spec = {"cls": "Sphere", "diameter": 2.0, "polarization": [0.0, 0.0, 1.0]}
    F, E = reference_field(spec, [[0.2, 0.1, -0.3], [1.5, 0.7, 2.0]], "B", mu0)
    assert np.allclose(F[0], [0, 0, 2.0 / 3.0], atol=1e-9), ("sphere inside", F[0])
    m = np.array([0, 0, 1.0]) / mu0 * (4 / 3 * np.pi)
    r = np.array([1.5, 0.7, 2.0])
    rn = np.linalg.norm(r)
    Bd = mu0 / (4 * np.pi) * (3 * r * (r @ m) / rn**5 - m / rn**3)
    assert np.allclose(F[1], Bd, rtol=1e-8, atol=1e-12), ("sphere outside", F[1], Bd)
    # circle on its axis: H_z = I R^2 / (2 (R^2+z^2)^1.5)
    spec = {"cls": "Circle", "diameter": 2.0, "current": 3.0}
    F, _ = reference_field(spec, [[0.0, 0.0, 0.7]], "H", mu0)
    assert np.allclose(F[0], [0, 0, 3.0 / (2 * (1 + 0.49) ** 1.5)], atol=1e-10), ("circle axis", F[0])
    # long straight wire: H_phi = I / (2 pi rho)
    spec = {"cls": "Polyline", "vertices": [[0, 0, -1e5], [0, 0, 1e5]], "current": 2.0}
    F, _ = reference_field(spec, [[0.3, 0.0, 0.0]], "H", mu0)
    assert np.allclose(F[0], [0, 2.0 / (2 * np.pi * 0.3), 0], rtol=1e-8, atol=1e-10), ("wire", F[0])
    # square plate (one face of a thin cuboid is not closed -> use a cuboid on its axis instead):
    # axial field of a uniformly z-magnetised cube at distance d on the axis (textbook solid-angle formula)
    a = 1.0
    spec = {"cls": "Cuboid", "dimension": [2 * a, 2 * a, 2 * a], "polarization": [0.0, 0.0, 1.0]}
    z = 2.5
    F, _ = reference_field(spec, [[0.0, 0.0, z]], "B", mu0)

    def omega(d):  # solid angle of a 2a x 2a square at axial distance d
        return 4 * np.arctan(a * a / (d * np.sqrt(2 * a * a + d * d)))

    Bz = (omega(z - a) - omega(z + a)) / (4 * np.pi)
    assert np.allclose(F[0], [0, 0, Bz], atol=1e-10), ("cube axis", F[0], Bz)
    return True
