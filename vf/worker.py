"""One shard of one check.  Runs in a fresh interpreter, started by vf.runner.

modes
  replay     : run saved cases through the property's run_case (no generation)
  enumerate  : run this shard's slice of the property's exhaustively enumerated sub-space
  generate   : Hypothesis-driven search (plain @given or a RuleBasedStateMachine), with the
               collect-and-continue loop of DESIGN.md 5.2
Writes one JSON result file; never prints verdict lines itself.
"""
from __future__ import annotations

import argparse
import contextlib
import json
import os
import signal
import sys
import time
import traceback

from vf import core
from vf.core import CaseFailed, CaseTimeout, Ctx, HarnessError, Violation, watchdog


class Session:
    """Per-shard bookkeeping shared by the plain and the stateful drivers."""

    def __init__(self, prop, tier, known):
        self.prop = prop
        self.tier = tier
        self.ctx = Ctx(tier)
        self.known = known  # list of open known-finding entries (dicts with 'match')
        self.local_excl = []  # signatures (dict) already reported in this run
        self.found = []  # list of dicts: sig, detail, case
        self.last_failure = None
        self.harness_error = None

    # ---------------------------------------------------------------------------------
    def split(self, violations):
        """-> (unknown violations); known ones are counted and dropped."""
        unknown = []
        for v in violations:
            # an exception raised from inside the elliptic-integral routines (special_*.py: NaN arguments near special
            # sets, open finding KF-C15-2) is the subject of C15 ("every finite input yields a finite field", no exception) and, for late failures after an
            # accepted assignment, of C17; the other checks count it and move on instead of reporting it as theirs
            if self.left_to_c15(v):
                continue
            hit = None
            for e in self.known:
                if core.sig_matches(e["match"], v.sig):
                    hit = e.get("id", "known")
                    break
            if hit is not None:
                self.ctx.excluded_known[hit] += 1
                dump = os.environ.get("VERIF_DUMP_KNOWN")  # maintenance aid: collect reproducers of listed findings
                if dump and self.ctx.excluded_known[hit] <= 2:
                    os.makedirs(dump, exist_ok=True)
                    with open(os.path.join(dump, f"{hit}_{core.case_hash(v.sig)}_{os.getpid()}.json"), "w", encoding="utf-8") as fh:
                        json.dump(core.to_jsonable({"property": self.prop.ID, "sig": v.sig, "detail": v.detail, "case": v.case}), fh, indent=1)
                continue
            if any(v.sig == s for s in self.local_excl):
                self.ctx.excluded_known["reported_this_run"] += 1
                continue
            unknown.append(v)
        return unknown

    def left_to_c15(self, v):
        if (self.prop.ID not in ("C15", "C17") and isinstance(v.sig, dict) and "exc" in v.sig
                and str(v.sig.get("frame", "")).startswith("special_")):
            self.ctx.excluded_known["field_routine_exception_left_to_C15"] += 1
            return True
        return False

    def record_failure(self, case, unknown):
        v = unknown[0]
        self.last_failure = {
            "sig": v.sig,
            "detail": v.detail,
            "case": core.to_jsonable(v.case if v.case is not None else case),
            "full_case": core.to_jsonable(case),
            "n_violations": len(unknown),
        }

    def evaluate(self, case):
        """Run one plain case; raise CaseFailed for an unknown violation."""
        self.ctx.evaluations += 1
        vs = self.run_guarded(case)
        unknown = self.split(vs)
        if unknown:
            self.record_failure(case, unknown)
            raise CaseFailed(unknown[0].sig_key())

    def run_guarded(self, case):
        """run_case under the per-case watchdog; a trip skips the case as inconclusive"""
        limit = getattr(self.prop, "CASE_TIMEOUT", 30)
        t0 = time.time()
        try:
            with watchdog(limit):
                return self.prop.run_case(case, self.ctx)
        except CaseTimeout:
            self.ctx.add_inconclusive()
            self.ctx.label("watchdog_trip_case_skipped")
            lst = self.ctx.extra.setdefault("watchdog_trips", [])
            if len(lst) < 3:
                lst.append(core.to_jsonable(case))
            return []
        finally:
            dt = time.time() - t0
            if dt > 5.0:
                # cost profile for the evidence: how many cases took longer than 5 s in this shard
                self.ctx.extra["cases_slower_than_5s"] = self.ctx.extra.get("cases_slower_than_5s", 0) + 1


# --------------------------------------------------------------------------------------


def _settings(tier, n, stateful_steps=None, shrink=None):
    from hypothesis import HealthCheck, Phase, settings  # pylint: disable=import-outside-toplevel

    if shrink is None:
        shrink = tier == "thorough"
    phases = [Phase.generate, Phase.target]
    if shrink:
        phases.append(Phase.shrink)
    kw = {
        "max_examples": max(1, int(n)),
        "database": None,
        "deadline": None,
        "derandomize": False,
        "report_multiple_bugs": False,
        "phases": phases,
        "suppress_health_check": [
            HealthCheck.too_slow,
            HealthCheck.data_too_large,
            HealthCheck.large_base_example,
        ],
    }
    if stateful_steps is not None:
        kw["stateful_step_count"] = stateful_steps
    return settings(**kw)


def run_generate(sess: Session, seed, shard, nshards, budget):
    import hypothesis  # pylint: disable=import-outside-toplevel
    from hypothesis import given  # pylint: disable=import-outside-toplevel

    prop, tier = sess.prop, sess.tier
    n_total = budget["examples"]
    n = max(1, -(-n_total // nshards))
    rounds = budget.get("rounds", 3 if tier == "quick" else 8)
    shrink = budget.get("shrink")
    steps = budget.get("steps")
    is_machine = hasattr(prop, "make_machine")

    for rnd in range(rounds):
        sess.last_failure = None
        s = core.derive_seed(seed, prop.ID, tier, shard, rnd)
        try:
            if is_machine:
                from hypothesis.stateful import (  # pylint: disable=import-outside-toplevel
                    run_state_machine_as_test,
                )

                machine_cls = prop.make_machine(tier, sess)
                run_state_machine_as_test(
                    hypothesis.seed(s)(machine_cls),
                    settings=_settings(tier, n, stateful_steps=steps, shrink=shrink),
                )
            else:
                strat = prop.strategy(tier)

                @hypothesis.seed(s)
                @_settings(tier, n, shrink=shrink)
                @given(strat)
                def test(case):
                    if sess.harness_error is not None:
                        return
                    try:
                        sess.evaluate(case)
                    except CaseFailed:
                        raise
                    except Exception as e:  # pylint: disable=broad-except
                        sess.harness_error = {
                            "error": repr(e),
                            "traceback": traceback.format_exc(),
                            "case": core.to_jsonable(case),
                        }

                test()
        except CaseFailed:
            f = sess.last_failure
            if f is None:
                raise HarnessError("CaseFailed without recorded failure") from None
            sess.found.append(f)
            sess.local_excl.append(f["sig"])
            continue
        if sess.harness_error is not None:
            raise HarnessError(json.dumps(sess.harness_error)[:4000])
        break


def run_fuzz(sess: Session, seed, shard, runs, out_path, finish):
    """Coverage-guided second driver (atheris / libFuzzer) of the same harness: the bytes chosen by
    libFuzzer are decoded by the property's Hypothesis strategy (fuzz_one_input), the case goes through
    the same run_case / signature / known-finding path.  libFuzzer never returns from Fuzz(), so the
    result file is written by `finish` when the run count is reached and the process exits itself."""
    import atheris  # pylint: disable=import-outside-toplevel,import-error
    from hypothesis import given  # pylint: disable=import-outside-toplevel

    prop, tier = sess.prop, sess.tier
    strat = prop.strategy(tier)
    state = {"inputs": 0, "decoded": 0}

    @_settings(tier, 1)
    @given(strat)
    def test(case):
        state["decoded"] += 1
        try:
            sess.evaluate(case)
        except CaseFailed:
            f = sess.last_failure
            if f is not None and len(sess.found) < 50:
                sess.found.append(f)
                sess.local_excl.append(f["sig"])

    fuzz_one = test.hypothesis.fuzz_one_input

    def one(data):
        state["inputs"] += 1
        err = None
        try:
            fuzz_one(data)
        except BaseException as e:  # pylint: disable=broad-except
            err = repr(e) + "\n" + traceback.format_exc()
        if err is not None or state["inputs"] >= runs:
            sess.ctx.extra["fuzz_inputs"] = state["inputs"]
            sess.ctx.extra["fuzz_inputs_decoded_to_cases"] = state["decoded"]
            finish(err)
            sys.stdout.flush()
            os._exit(0 if err is None else 2)  # pylint: disable=protected-access

    corpus = out_path + ".corpus"
    os.makedirs(corpus, exist_ok=True)
    s = core.derive_seed(seed, prop.ID, tier, shard, 99) % (2**31 - 1) or 1
    # starting corpus: an empty corpus leaves libFuzzer mutating inputs of a few bytes for a long time,
    # which the larger strategies cannot decode into a case.  Seed it with pseudo-random buffers (a pure
    # function of the shard seed) of the sizes the strategies consume.
    import random  # pylint: disable=import-outside-toplevel

    rng = random.Random(s)
    for i in range(48):
        with open(os.path.join(corpus, f"seed{i:02d}"), "wb") as f:
            f.write(rng.randbytes((256, 1024, 4096)[i % 3]))
    argv = [sys.argv[0], f"-seed={s}", f"-runs={runs + 1000}", "-len_control=0", "-max_len=4096",
            "-timeout=120", "-rss_limit_mb=4096", "-print_final_stats=0", "-verbosity=" + os.environ.get("VERIF_FUZZ_VERBOSITY", "0"), corpus]
    atheris.Setup(argv, one)
    atheris.Fuzz()


def run_enumerate(sess: Session, shard, nshards):
    prop = sess.prop
    count = 0
    for i, case in enumerate(prop.enumerate_cases(sess.tier)):
        if i % nshards != shard:
            continue
        count += 1
        sess.ctx.evaluations += 1
        vs = sess.run_guarded(case)
        unknown = sess.split(vs)
        for v in unknown:
            sess.found.append(
                {
                    "sig": v.sig,
                    "detail": v.detail,
                    "case": core.to_jsonable(v.case if v.case is not None else case),
                }
            )
            sess.local_excl.append(v.sig)
    sess.ctx.extra["enumerated"] = count


def run_replay(sess: Session, files):
    """Replays: every violation is reported with its source file; known ones are marked."""
    prop = sess.prop
    out = []
    for path in files:
        with open(path, encoding="utf-8") as f:
            rec = json.load(f)
        case = rec["case"] if isinstance(rec, dict) and "case" in rec else rec
        sess.ctx.evaluations += 1
        vs = sess.run_guarded(case)
        entry = {"file": path, "violations": []}
        for v in vs:
            if sess.left_to_c15(v):
                continue
            known_id = None
            for e in sess.known:
                if core.sig_matches(e["match"], v.sig):
                    known_id = e.get("id", "known")
                    break
            entry["violations"].append(
                {"sig": v.sig, "detail": v.detail, "known": known_id}
            )
        out.append(entry)
    sess.ctx.extra["replayed"] = out


def main(argv=None):
    ap = argparse.ArgumentParser()
    ap.add_argument("--prop", required=True)
    ap.add_argument("--tier", default="quick")
    ap.add_argument("--mode", default="generate")
    ap.add_argument("--seed", type=int, default=1)
    ap.add_argument("--shard", type=int, default=0)
    ap.add_argument("--nshards", type=int, default=1)
    ap.add_argument("--out", required=True)
    ap.add_argument("--files", nargs="*", default=[])
    ap.add_argument("--examples", type=int, default=None)
    a = ap.parse_args(argv)

    t0 = time.time()
    result = {"shard": a.shard, "mode": a.mode, "ok": False}
    sess = None

    def write_result():
        result["wall_s"] = time.time() - t0
        tmp = a.out + ".tmp"
        with open(tmp, "w", encoding="utf-8") as f:
            json.dump(core.to_jsonable(result), f)
        os.replace(tmp, a.out)

    try:
        if a.mode == "fuzz":
            try:
                import atheris  # pylint: disable=import-outside-toplevel,import-error
            except ImportError as e:
                result.update(Ctx(a.tier).dump())
                result["extra"] = {"fuzz_unavailable": repr(e)}
                result["found"] = []
                result["ok"] = True
                write_result()
                return 0
            with atheris.instrument_imports(include=["magpylib"]):
                core.import_magpylib()
        else:
            core.import_magpylib()
        prop = core.load_prop(a.prop)
        known = core.load_known_findings(prop.ID)
        sess = Session(prop, a.tier, known)
        if hasattr(prop, "self_test") and a.mode not in ("replay", "fuzz") and a.shard == 0:
            prop.self_test()
        if a.mode == "replay":
            run_replay(sess, a.files)
        elif a.mode == "enumerate":
            run_enumerate(sess, a.shard, a.nshards)
        elif a.mode == "fuzz":

            def finish(err):
                result.update(sess.ctx.dump())
                result["found"] = sess.found
                if err is None:
                    result["ok"] = True
                else:
                    result["harness_error"] = err
                write_result()

            run_fuzz(sess, a.seed, a.shard, a.examples or 1000, a.out, finish)
            raise HarnessError("atheris.Fuzz returned without reaching the run count")
        else:
            budget = dict(prop.budget(a.tier))
            if a.examples is not None:
                budget["examples"] = a.examples
            run_generate(sess, a.seed, a.shard, a.nshards, budget)
        result.update(sess.ctx.dump())
        result["found"] = sess.found
        result["ok"] = True
    except HarnessError as e:
        result["harness_error"] = str(e)
    except BaseException as e:  # pylint: disable=broad-except
        result["harness_error"] = repr(e) + "\n" + traceback.format_exc()
    write_result()
    return 0 if result["ok"] else 2


if __name__ == "__main__":
    sys.exit(main())
