"""Shared core of the verification machinery: violations, signatures, known-finding
matching, case hashing, evaluation context, access to the code under test.

Nothing in here draws random numbers.  Every random choice of a check is made by a
Hypothesis strategy inside a property module (vf/props/cNN.py).
"""
from __future__ import annotations

import contextlib
import hashlib
import json
import os
import signal
import sys
import traceback
from collections import Counter

VERIF_ROOT = os.path.dirname(os.path.dirname(os.path.abspath(__file__)))
REPO_ROOT = os.path.abspath(os.environ.get("VERIF_REPO", "/repo"))


class HarnessError(Exception):
    """Raised for problems of the machinery itself (exit code 2, never a violation)."""


# --------------------------------------------------------------------------------------
# code under test


def import_magpylib():
    """Import magpylib from REPO_ROOT (the current working tree) and nothing else."""
    if sys.path[0] != REPO_ROOT:
        sys.path.insert(0, REPO_ROOT)
    import magpylib  # pylint: disable=import-outside-toplevel

    f = os.path.abspath(magpylib.__file__)
    if not f.startswith(REPO_ROOT + os.sep):
        raise HarnessError(f"magpylib imported from {f}, expected below {REPO_ROOT}")
    return magpylib


# --------------------------------------------------------------------------------------
# JSON helpers


def to_jsonable(x):
    """numpy / tuples -> plain JSON types (floats keep full precision via repr)."""
    import numpy as np  # pylint: disable=import-outside-toplevel

    if isinstance(x, dict):
        return {str(k): to_jsonable(v) for k, v in x.items()}
    if isinstance(x, (list, tuple)):
        return [to_jsonable(v) for v in x]
    if isinstance(x, np.ndarray):
        return to_jsonable(x.tolist())
    if isinstance(x, (np.bool_,)):
        return bool(x)
    if isinstance(x, np.integer):
        return int(x)
    if isinstance(x, np.floating):
        return float(x)
    if isinstance(x, float):
        if x != x:  # NaN
            return "NaN"
        if x in (float("inf"), float("-inf")):
            return "Infinity" if x > 0 else "-Infinity"
        return x
    if isinstance(x, (str, int, bool)) or x is None:
        return x
    if isinstance(x, (set, frozenset)):
        return sorted(to_jsonable(v) for v in x)
    return repr(x)


def canonical(x) -> str:
    return json.dumps(to_jsonable(x), sort_keys=True, separators=(",", ":"))


def case_hash(x) -> str:
    return hashlib.blake2b(canonical(x).encode(), digest_size=8).hexdigest()


# --------------------------------------------------------------------------------------
# violations


class Violation:
    """One observed breach of the property.

    sig    : small dict identifying the root cause class (sub-check, class, field, region,
             branch, exception type + frame, operation kind ...).  Two violations with the
             same sig count as one finding.
    detail : human-readable numbers.
    case   : minimal JSON-able case that reproduces it through the property's run_case()
             (defaults to the whole case when None).
    """

    __slots__ = ("sig", "detail", "case")

    def __init__(self, sig, detail="", case=None):
        self.sig = {k: to_jsonable(v) for k, v in sig.items()}
        self.detail = detail
        self.case = case

    def sig_key(self):
        return canonical(self.sig)

    def as_dict(self):
        return {"sig": self.sig, "detail": self.detail, "case": to_jsonable(self.case)}

    def __repr__(self):
        return f"Violation({self.sig}, {self.detail!r})"


def _match_value(pat, val):
    if isinstance(pat, dict):
        try:
            v = float(val)
        except (TypeError, ValueError):
            return False
        if "ge" in pat and not v >= pat["ge"]:
            return False
        if "le" in pat and not v <= pat["le"]:
            return False
        if "gt" in pat and not v > pat["gt"]:
            return False
        if "lt" in pat and not v < pat["lt"]:
            return False
        return True
    if isinstance(pat, list):
        return val in pat
    return pat == val


def sig_matches(match: dict, sig: dict) -> bool:
    """A known-finding pattern matches a signature when every key of the pattern is
    present in the signature and matches (scalar: equal; list: member; dict: range)."""
    if isinstance(match, list):  # any-of several patterns (one root cause seen through several sub-checks)
        return any(sig_matches(m, sig) for m in match)
    for k, pat in match.items():
        if k not in sig:
            return False
        if not _match_value(pat, sig[k]):
            return False
    return True


def load_known_findings(prop_id: str):
    path = os.path.join(VERIF_ROOT, "known_findings.json")
    if not os.path.exists(path):
        return []
    with open(path, encoding="utf-8") as f:
        data = json.load(f)
    out = []
    for e in data.get("findings", []):
        if e.get("property") == prop_id and e.get("status") == "open":
            out.append(e)
    return out


def innermost_lib_frame(exc: BaseException) -> str:
    """'file.py:function' of the innermost traceback frame that lies in magpylib."""
    tb = traceback.extract_tb(exc.__traceback__)
    hit = None
    for fr in tb:
        if os.sep + "magpylib" + os.sep in fr.filename:
            hit = fr
    if hit is None:
        return "<outside magpylib>"
    return f"{os.path.basename(hit.filename)}:{hit.name}"


def exc_sig(exc: BaseException) -> dict:
    return {"exc": type(exc).__name__, "frame": innermost_lib_frame(exc)}


def probe_diff(a, b):
    """|a - b| for the conditioning probes; a non-finite probe value means "no statement possible here" (inf)"""
    import numpy as np  # pylint: disable=import-outside-toplevel

    with np.errstate(invalid="ignore"):
        d = np.abs(np.asarray(a, dtype=float) - np.asarray(b, dtype=float))
    return np.where(np.isfinite(d), d, np.inf)


def raised_in_field_routine(exc: BaseException) -> bool:
    """True if the innermost magpylib frame of the traceback is one of the closed-form field routines
    (magpylib/_src/fields/field_BH_*.py, special_*.py).  Such an exception is the subject of C15 (every finite input
    yields a finite field, no exception); the relation checks count the case as inconclusive instead of reporting it
    under their own property."""
    return innermost_lib_frame(exc).startswith("special_")


# --------------------------------------------------------------------------------------
# evaluation context (per worker)


class Ctx:
    """Collects what a run actually covered."""

    MAX_SAMPLES = 6

    def __init__(self, tier="quick"):
        self.tier = tier
        self.evaluations = 0
        self.labels = Counter()
        self.nontrivial = set()
        self.samples = []
        self.nontrivial_samples = []
        self.excluded_known = Counter()
        self.inconclusive = 0
        self.extra = {}

    # called by property modules ------------------------------------------------------
    def label(self, name, n=1):
        self.labels[str(name)] += n

    def mark_nontrivial(self, obj):
        """Register a distinct non-trivial item (hash of its canonical JSON)."""
        self.nontrivial.add(case_hash(obj))

    def sample(self, case, nontrivial=False):
        if nontrivial:
            if len(self.nontrivial_samples) < self.MAX_SAMPLES:
                self.nontrivial_samples.append(to_jsonable(case))
        elif len(self.samples) < 2:
            self.samples.append(to_jsonable(case))

    def add_inconclusive(self, n=1):
        self.inconclusive += n

    # ---------------------------------------------------------------------------------
    def dump(self):
        return {
            "evaluations": self.evaluations,
            "labels": dict(self.labels),
            "nontrivial": sorted(self.nontrivial),
            "samples": self.nontrivial_samples[: self.MAX_SAMPLES] + self.samples[:2],
            "excluded_known": dict(self.excluded_known),
            "inconclusive": self.inconclusive,
            "extra": self.extra,
        }


def load_prop(prop_id: str):
    import importlib  # pylint: disable=import-outside-toplevel

    return importlib.import_module(f"vf.props.{prop_id.lower()}")


def derive_seed(base: int, *parts) -> int:
    h = hashlib.blake2b(
        ("/".join(str(p) for p in (base,) + parts)).encode(), digest_size=6
    ).digest()
    return int.from_bytes(h, "big")


# Relative displacements used to probe the numerical conditioning of a field value at an
# observer (DESIGN.md 4.6, condition-aware allowance): +-8 ulp, +-1e-13, +-1e-11 of the
# coordinate magnitude.  Differences between two evaluation routes that are no larger than
# what such displacements do to one route are rounding noise of an ill-conditioned formula
# (edge extensions, far field, near axis), not a difference between the routes.
_EPS = 2.220446049250313e-16
NOISE_STEPS = tuple(s * r for r in (8 * _EPS, 1e-13, 1e-11) for s in (1.0, -1.0))


class CaseFailed(Exception):
    """Raised inside a Hypothesis test body when a case has a not-yet-known violation."""


class CaseTimeout(BaseException):
    """Raised by the per-case watchdog (BaseException: not swallowed by `except Exception`)."""


@contextlib.contextmanager
def watchdog(seconds):
    """Wall-clock guard around one case.  A trip is 'inconclusive' for every property except
    C15 (which runs its own CPU-time watchdog and turns a confirmed trip into a verdict)."""
    if not seconds:
        yield
        return

    def handler(signum, frame):
        raise CaseTimeout()

    old = signal.signal(signal.SIGALRM, handler)
    signal.setitimer(signal.ITIMER_REAL, seconds)
    try:
        yield
    finally:
        signal.setitimer(signal.ITIMER_REAL, 0)
        signal.signal(signal.SIGALRM, old)


