"""Base for the stateful checks (Hypothesis RuleBasedStateMachine).

A property module provides
    new_state(init)                -> state object (builds real objects + reference model)
    apply_op(state, op, ctx)       -> [Violation]   (applies one JSON-able op to both, compares)
    finish(state, init, ops, ctx)  -> None          (labels / non-trivial bookkeeping)
and a machine class deriving from VMachine whose rules only *draw* ops (plain dicts) and hand
them to self.do(op).  The recorded (init, ops) history is the replay case; run_case() below
re-interprets it without Hypothesis.
"""
from __future__ import annotations

import traceback

from hypothesis.stateful import RuleBasedStateMachine

from vf import core
from vf.core import CaseFailed, CaseTimeout, watchdog


class VMachine(RuleBasedStateMachine):
    SESS = None
    PROP = None

    def __init__(self):
        super().__init__()
        self.ops = []
        self.init = None
        self.state = None
        self.dead = False

    # ------------------------------------------------------------------------------
    def start(self, init):
        self.init = init
        try:
            self.state = self.PROP.new_state(init)
        except Exception as e:  # pylint: disable=broad-except
            self._harness(e, {"init": init})

    def _harness(self, e, where):
        self.dead = True
        if self.SESS.harness_error is None:
            self.SESS.harness_error = {"error": repr(e), "traceback": traceback.format_exc(),
                                       "case": core.to_jsonable({"init": self.init, "ops": self.ops, **where})}

    def do(self, op):
        if self.dead or self.state is None or self.SESS.harness_error is not None:
            return
        self.ops.append(op)
        try:
            with watchdog(getattr(self.PROP, "CASE_TIMEOUT", 30)):
                vs = self.PROP.apply_op(self.state, op, self.SESS.ctx)
        except CaseTimeout:
            self.SESS.ctx.add_inconclusive()
            self.SESS.ctx.label("watchdog_trip_history_abandoned")
            self.dead = True
            return
        except Exception as e:  # pylint: disable=broad-except
            self._harness(e, {})
            return
        unknown = self.SESS.split(vs)
        if unknown:
            case = {"init": self.init, "ops": list(self.ops)}
            self.SESS.record_failure(case, unknown)
            raise CaseFailed(unknown[0].sig_key())

    def teardown(self):
        if self.state is None or self.init is None:
            return
        self.SESS.ctx.evaluations += 1
        self.SESS.ctx.label("steps", len(self.ops))
        if not self.dead:
            try:
                self.PROP.finish(self.state, self.init, self.ops, self.SESS.ctx)
            except Exception as e:  # pylint: disable=broad-except
                self._harness(e, {})


def bind(machine_cls, prop, sess):
    """Subclass of machine_cls bound to a property module and a worker session."""
    return type(machine_cls.__name__, (machine_cls,), {"SESS": sess, "PROP": prop})


def replay_history(prop, case, ctx):
    """run_case for stateful properties: stop at the first step that violates."""
    state = prop.new_state(case["init"])
    done = []
    for op in case["ops"]:
        done.append(op)
        vs = prop.apply_op(state, op, ctx)
        if vs:
            for v in vs:
                if v.case is None:
                    v.case = {"init": case["init"], "ops": list(done)}
            return vs
    ctx.label("steps", len(done))
    prop.finish(state, case["init"], done, ctx)
    return []
