"""Reference model of the documented path semantics (docs_pos_ori, move/rotate docstrings).

Written from the documentation, not from the implementation:
  * scalar input applies to every path entry from index `start` (default 0)
  * vector input of length n applies entry-wise to n path entries from `start`
    (default: appended at the end)
  * negative start counts from the end; where the input reaches beyond the path, the path is
    edge-padded (in front or behind) before the operation
  * rotation composes on the LEFT of the existing orientation and moves the position about the
    anchor (None: no position change, 0: origin, single, or per step; the shorter of rotation
    and per-step anchor sequence is edge-padded, which makes the input a vector input)
  * setters assign one path and edge-pad or end-slice (keep the last entries of) the other
SciPy's Rotation is trusted for rotation algebra.
"""
from __future__ import annotations

import numpy as np
from scipy.spatial.transform import Rotation as R


class PathModel:
    def __init__(self, pos, quat):
        self.pos = np.array(pos, dtype=float).reshape(-1, 3)
        self.rot = R.from_quat(np.array(quat, dtype=float).reshape(-1, 4))
        assert len(self.pos) == len(self.rot) >= 1

    def copy(self):
        return PathModel(self.pos.copy(), self.rot.as_quat().copy())

    def __len__(self):
        return len(self.pos)

    # ----------------------------------------------------------------------------------
    def _window(self, scalar, n_in, start):
        """Pad the path as documented and return (i0, i1): the operation acts on [i0, i1)."""
        n = len(self.pos)
        if start == "auto":
            start = 0 if scalar else n
        front = 0
        if start < 0:
            start = n + start
            if start < 0:
                front = -start
                start = 0
        n_eff = 1 if scalar else n_in
        behind = max(0, start + n_eff - (n + front))
        if front or behind:
            q = self.rot.as_quat()
            self.pos = np.concatenate([np.repeat(self.pos[:1], front, 0), self.pos, np.repeat(self.pos[-1:], behind, 0)])
            q = np.concatenate([np.repeat(q[:1], front, 0), q, np.repeat(q[-1:], behind, 0)])
            self.rot = R.from_quat(q)
        i1 = len(self.pos) if scalar else start + n_in
        return start, i1, (front, behind)

    def move(self, disp, start="auto"):
        d = np.asarray(disp, dtype=float)
        scalar = d.ndim == 1
        i0, i1, pad = self._window(scalar, 1 if scalar else len(d), start)
        self.pos[i0:i1] = self.pos[i0:i1] + d
        return pad

    def rotate(self, rot, anchor=None, start="auto"):
        """rot: scipy Rotation (single or of length n) or None (unit)."""
        if rot is None:
            rot = R.identity()
        q = np.asarray(rot.as_quat(), dtype=float)
        scalar = q.ndim == 1
        if anchor is not None:
            a = np.zeros(3) if (np.isscalar(anchor) and anchor == 0) else np.asarray(anchor, dtype=float)
            if a.ndim == 2:
                # per-step anchors: the shorter sequence is edge-padded -> vector input
                qs = q.reshape(-1, 4)
                m = max(len(qs), len(a))
                qs = np.concatenate([qs, np.repeat(qs[-1:], m - len(qs), 0)])
                a = np.concatenate([a, np.repeat(a[-1:], m - len(a), 0)])
                q, scalar = qs, False
            elif not scalar:
                a = np.repeat(a[None], len(q), 0)
        else:
            a = None
        Q = R.from_quat(q)
        i0, i1, pad = self._window(scalar, 1 if scalar else len(q), start)
        if a is not None:
            self.pos[i0:i1] = Q.apply(self.pos[i0:i1] - a) + a
        quat = self.rot.as_quat()
        quat[i0:i1] = (Q * R.from_quat(quat[i0:i1])).as_quat().reshape(-1, 4)
        self.rot = R.from_quat(quat)
        return pad

    def set_position(self, value):
        p = np.array(value, dtype=float).reshape(-1, 3)
        self.rot = R.from_quat(_fit(self.rot.as_quat(), len(p)))
        self.pos = p

    def set_orientation(self, quat):
        n = len(self.pos)
        if quat is None:
            q = np.array([[0.0, 0.0, 0.0, 1.0]])
        else:
            q = np.array(quat, dtype=float).reshape(-1, 4)
        self.rot = R.from_quat(q)
        self.pos = _fit(self.pos, len(q))

    def reset(self):
        self.set_position([0.0, 0.0, 0.0])
        self.set_orientation(None)


def _fit(arr, n):
    """edge-pad behind or end-slice (keep the last n entries)"""
    m = len(arr)
    if n > m:
        return np.concatenate([arr, np.repeat(arr[-1:], n - m, 0)])
    if n < m:
        return arr[m - n:]
    return arr


def rotation_from_form(form):
    """The scipy Rotation that the documented rotate_from_* form denotes, built by the harness
    from the same numbers (dict 'form' with key 'kind')."""
    k = form["kind"]
    if k == "rotate":
        return None if form["quat"] is None else R.from_quat(np.asarray(form["quat"], dtype=float))
    if k == "quat":
        return R.from_quat(np.asarray(form["quat"], dtype=float))
    if k == "angax":
        ang = np.asarray(form["angle"], dtype=float)
        if form["degrees"]:
            ang = np.deg2rad(ang)
        ax = form["axis"]
        if isinstance(ax, str):
            ax = {"x": [1.0, 0, 0], "y": [0, 1.0, 0], "z": [0, 0, 1.0]}[ax]
        ax = np.asarray(ax, dtype=float)
        ax = ax / np.linalg.norm(ax)
        if ang.ndim == 0:
            return R.from_rotvec(ax * float(ang))
        return R.from_rotvec(ax[None] * ang[:, None])
    if k == "rotvec":
        return R.from_rotvec(np.asarray(form["rotvec"], dtype=float), degrees=form["degrees"])
    if k == "euler":
        ang = np.asarray(form["angle"], dtype=float)
        if len(form["seq"]) == 1 and ang.ndim == 1:
            ang = ang.reshape(-1, 1)  # n angles about one axis
        return R.from_euler(form["seq"], ang, degrees=form["degrees"])
    if k == "matrix":
        return R.from_matrix(np.asarray(form["matrix"], dtype=float))
    if k == "mrp":
        return R.from_mrp(np.asarray(form["mrp"], dtype=float))
    raise ValueError(k)
