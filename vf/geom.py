"""Harness-side geometry, independent of the code under test.

Every source class gets a Body in its *local* frame with
  L               characteristic size (largest extent)
  kind            'magnet' | 'sheet' | 'current' | 'dipole'
  inside(P)       strict interior predicate (magnets), vectorised over (n,3)
  dist(P)         distance to the surface / wire / point, vectorised
  surface_point(u), edge_point(u), vertex_point(u)   constructions from uniforms u in [0,1)
and the region sampler `observer_in_region` builds observers on named regions.

All functions are deterministic functions of their arguments (no RNG).
"""
from __future__ import annotations

import numpy as np

TWO_PI = 2.0 * np.pi

# --------------------------------------------------------------------------------------
# small helpers


def unit(v):
    v = np.asarray(v, dtype=float)
    n = np.linalg.norm(v, axis=-1, keepdims=True)
    return v / np.where(n == 0, 1.0, n)


def direction_from_u(u1, u2):
    """Uniform direction on the sphere from two uniforms."""
    z = 2.0 * u1 - 1.0
    ph = TWO_PI * u2
    s = np.sqrt(max(0.0, 1.0 - z * z))
    return np.array([s * np.cos(ph), s * np.sin(ph), z])


def perpendicular(t, ang):
    """Unit vector perpendicular to t, rotated by ang about t."""
    t = unit(t)
    a = np.array([1.0, 0.0, 0.0]) if abs(t[0]) < 0.9 else np.array([0.0, 1.0, 0.0])
    e1 = unit(np.cross(t, a))
    e2 = np.cross(t, e1)
    return np.cos(ang) * e1 + np.sin(ang) * e2


def logu(u, lo, hi):
    """10**U(lo,hi) from a uniform u."""
    return 10.0 ** (lo + (hi - lo) * u)


# --------------------------------------------------------------------------------------
# point - triangle distance, vectorised over points (N,3) x triangles (T,3,3)


def _closest_on_triangles(P, A, B, C):
    """Closest points on triangles (Ericson, Real-Time Collision Detection 5.1.5).
    P: (N,1,3); A,B,C: (1,T,3). Returns (N,T,3)."""
    ab = B - A
    ac = C - A
    ap = P - A
    d1 = np.sum(ab * ap, -1)
    d2 = np.sum(ac * ap, -1)
    bp = P - B
    d3 = np.sum(ab * bp, -1)
    d4 = np.sum(ac * bp, -1)
    cp = P - C
    d5 = np.sum(ab * cp, -1)
    d6 = np.sum(ac * cp, -1)
    vc = d1 * d4 - d3 * d2
    vb = d5 * d2 - d1 * d6
    va = d3 * d6 - d5 * d4

    shape = vc.shape
    res = np.empty(shape + (3,))
    done = np.zeros(shape, dtype=bool)

    def put(mask, val):
        m = mask & ~done
        res[m] = np.broadcast_to(val, shape + (3,))[m]
        done[m] = True

    put((d1 <= 0) & (d2 <= 0), A)
    put((d3 >= 0) & (d4 <= d3), B)
    with np.errstate(divide="ignore", invalid="ignore"):
        v = d1 / (d1 - d3)
        put((vc <= 0) & (d1 >= 0) & (d3 <= 0), A + v[..., None] * ab)
        put((d6 >= 0) & (d5 <= d6), C)
        w = d2 / (d2 - d6)
        put((vb <= 0) & (d2 >= 0) & (d6 <= 0), A + w[..., None] * ac)
        w2 = (d4 - d3) / ((d4 - d3) + (d5 - d6))
        put((va <= 0) & ((d4 - d3) >= 0) & ((d5 - d6) >= 0), B + w2[..., None] * (C - B))
        denom = 1.0 / (va + vb + vc)
        v3 = vb * denom
        w3 = vc * denom
        put(np.ones(shape, dtype=bool), A + ab * v3[..., None] + ac * w3[..., None])
    return res


def dist_to_triangles(P, tris):
    """min distance from points P (N,3) to a set of triangles tris (T,3,3)."""
    P = np.atleast_2d(np.asarray(P, dtype=float))
    tris = np.asarray(tris, dtype=float)
    out = np.empty(len(P))
    step = max(1, 200000 // max(1, len(tris)))
    for i in range(0, len(P), step):
        p = P[i : i + step, None, :]
        c = _closest_on_triangles(p, tris[None, :, 0], tris[None, :, 1], tris[None, :, 2])
        out[i : i + step] = np.sqrt(np.min(np.sum((c - p) ** 2, -1), axis=1))
    return out


def dist_to_segments(P, A, B):
    """min distance from points (N,3) to segments A[k]->B[k] (K,3)."""
    P = np.atleast_2d(np.asarray(P, dtype=float))[:, None, :]
    A = np.asarray(A, dtype=float)[None]
    B = np.asarray(B, dtype=float)[None]
    ab = B - A
    l2 = np.sum(ab * ab, -1)
    with np.errstate(divide="ignore", invalid="ignore"):
        t = np.where(l2 > 0, np.sum((P - A) * ab, -1) / np.where(l2 > 0, l2, 1.0), 0.0)
    t = np.clip(t, 0.0, 1.0)
    c = A + t[..., None] * ab
    return np.sqrt(np.min(np.sum((P - c) ** 2, -1), axis=1))


def solid_angle_sum(P, tris):
    """Sum of signed solid angles of triangles seen from P (Van Oosterom & Strackee)."""
    P = np.atleast_2d(np.asarray(P, dtype=float))[:, None, :]
    a = tris[None, :, 0] - P
    b = tris[None, :, 1] - P
    c = tris[None, :, 2] - P
    la = np.linalg.norm(a, axis=-1)
    lb = np.linalg.norm(b, axis=-1)
    lc = np.linalg.norm(c, axis=-1)
    num = np.sum(a * np.cross(b, c), -1)
    den = la * lb * lc + np.sum(a * b, -1) * lc + np.sum(a * c, -1) * lb + np.sum(b * c, -1) * la
    return np.sum(2.0 * np.arctan2(num, den), axis=1)


# --------------------------------------------------------------------------------------
# bodies


class Body:
    kind = "magnet"
    cls = "?"
    L = 1.0

    def inside(self, P):
        return np.zeros(len(np.atleast_2d(P)), dtype=bool)

    def dist(self, P):
        raise NotImplementedError

    def edge_point(self, u):
        return None

    def vertex_point(self, u):
        return None

    def volume(self):
        return 0.0


class Polyhedron(Body):
    """Closed triangulated surface with outward-oriented triangles (or one open sheet)."""

    def __init__(self, verts, faces, cls="TriangularMesh", closed=True):
        self.cls = cls
        self.V = np.asarray(verts, dtype=float)
        self.F = np.asarray(faces, dtype=int)
        self.tris = self.V[self.F]
        self.closed = closed
        self.kind = "magnet" if closed else "sheet"
        ext = self.V.max(0) - self.V.min(0)
        self.L = float(np.max(ext)) if np.max(ext) > 0 else 1.0
        e1 = self.tris[:, 1] - self.tris[:, 0]
        e2 = self.tris[:, 2] - self.tris[:, 0]
        cr = np.cross(e1, e2)
        self.area = 0.5 * np.linalg.norm(cr, axis=1)
        self.normal = unit(cr)
        self.centroid = self.V.mean(0)
        self._edges = None

    def volume(self):
        if not self.closed:
            return 0.0
        t = self.tris
        return float(np.sum(np.einsum("ij,ij->i", t[:, 0], np.cross(t[:, 1], t[:, 2]))) / 6.0)

    def inside(self, P):
        P = np.atleast_2d(P)
        if not self.closed:
            return np.zeros(len(P), dtype=bool)
        w = solid_angle_sum(P, self.tris) / (4 * np.pi)
        return w > 0.5

    def dist(self, P):
        return dist_to_triangles(P, self.tris)

    def surface_point(self, u):
        cum = np.cumsum(self.area)
        k = int(np.searchsorted(cum, u[0] * cum[-1], side="right"))
        k = min(k, len(self.area) - 1)
        a, b = u[1], u[2]
        if a + b > 1:
            a, b = 1 - a, 1 - b
        # keep away from the triangle's own edges a little (true interior of a face)
        a = 0.02 + 0.94 * a
        b = 0.02 + 0.94 * b
        if a + b > 0.98:
            s = 0.98 / (a + b)
            a, b = a * s, b * s
        t = self.tris[k]
        S = t[0] + a * (t[1] - t[0]) + b * (t[2] - t[0])
        return S, self.normal[k], f"face{k}"

    def edges(self):
        """Real edges: (A, B, n1, n2) with non-parallel adjacent normals (or boundary edges)."""
        if self._edges is None:
            adj = {}
            for fi, f in enumerate(self.F):
                for i in range(3):
                    a, b = int(f[i]), int(f[(i + 1) % 3])
                    adj.setdefault((min(a, b), max(a, b)), []).append(fi)
            out = []
            for (a, b), fl in sorted(adj.items()):
                if len(fl) == 2:
                    n1, n2 = self.normal[fl[0]], self.normal[fl[1]]
                    if np.linalg.norm(np.cross(n1, n2)) < 1e-9:
                        continue  # triangulation diagonal inside a flat face
                    out.append((self.V[a], self.V[b], n1, n2))
                elif len(fl) == 1:
                    n1 = self.normal[fl[0]]
                    t = unit(self.V[b] - self.V[a])
                    n2 = unit(np.cross(t, n1))
                    # in-plane direction pointing away from the triangle
                    third = [v for v in self.F[fl[0]] if v not in (a, b)][0]
                    if np.dot(n2, self.V[third] - self.V[a]) > 0:
                        n2 = -n2
                    out.append((self.V[a], self.V[b], n1, n2))
            self._edges = out
        return self._edges

    def edge_point(self, u):
        ed = self.edges()
        if not ed:
            return None
        A, B, n1, n2 = ed[min(int(u[0] * len(ed)), len(ed) - 1)]
        t = 0.05 + 0.9 * u[1]
        return A + t * (B - A), n1, n2, unit(B - A), A, B

    def vertex_point(self, u):
        k = min(int(u[0] * len(self.V)), len(self.V) - 1)
        out = unit(self.V[k] - self.centroid)
        return self.V[k], out


def cuboid_body(dim):
    a, b, c = (float(x) / 2 for x in dim)
    V = np.array([[sx * a, sy * b, sz * c] for sx in (-1, 1) for sy in (-1, 1) for sz in (-1, 1)])
    F = _hull_faces(V)
    return Polyhedron(V, F, cls="Cuboid")


def _hull_faces(V):
    """Outward-oriented triangle faces of the convex hull of V (harness' own orientation)."""
    from scipy.spatial import ConvexHull  # pylint: disable=import-outside-toplevel

    hull = ConvexHull(V)
    F = hull.simplices.copy()
    c = V.mean(0)
    for i, f in enumerate(F):
        n = np.cross(V[f[1]] - V[f[0]], V[f[2]] - V[f[0]])
        if np.dot(n, V[f[0]] - c) < 0:
            F[i] = f[[0, 2, 1]]
    return F


def orient_outward(V, F):
    """Orient faces of a closed connected manifold mesh outward: consistent winding by
    propagation over shared edges, then global sign from the signed volume."""
    V = np.asarray(V, dtype=float)
    F = np.array(F, dtype=int)
    edge_map = {}
    for fi, f in enumerate(F):
        for i in range(3):
            a, b = int(f[i]), int(f[(i + 1) % 3])
            edge_map.setdefault((min(a, b), max(a, b)), []).append(fi)
    seen = np.zeros(len(F), dtype=bool)
    for start in range(len(F)):
        if seen[start]:
            continue
        comp = [start]
        seen[start] = True
        stack = [start]
        while stack:
            fi = stack.pop()
            f = F[fi]
            for i in range(3):
                a, b = int(f[i]), int(f[(i + 1) % 3])
                for fj in edge_map[(min(a, b), max(a, b))]:
                    if seen[fj]:
                        continue
                    g = F[fj]
                    # neighbour must traverse the shared edge in the opposite direction
                    same = any(int(g[k]) == a and int(g[(k + 1) % 3]) == b for k in range(3))
                    if same:
                        F[fj] = g[[0, 2, 1]]
                    seen[fj] = True
                    comp.append(fj)
                    stack.append(fj)
        t = V[F[comp]]
        vol = np.sum(np.einsum("ij,ij->i", t[:, 0], np.cross(t[:, 1], t[:, 2])))
        if vol < 0:
            F[comp] = F[comp][:, [0, 2, 1]]
    return F


class CylSeg(Body):
    """Cylinder segment r1<=r<=r2, |z|<=h/2, phi1<=phi<=phi2 (radians).  A full cylinder is
    r1=0 and full=True."""

    def __init__(self, r1, r2, h, phi1, phi2, cls="CylinderSegment", full=None):
        self.cls = cls
        self.r1, self.r2, self.h = float(r1), float(r2), float(h)
        self.phi1, self.phi2 = float(phi1), float(phi2)
        self.dphi = self.phi2 - self.phi1
        self.full = bool(full) if full is not None else (self.dphi >= TWO_PI * (1 - 1e-15))
        self.L = max(2 * self.r2, self.h)

    def volume(self):
        return 0.5 * (self.r2**2 - self.r1**2) * (TWO_PI if self.full else self.dphi) * self.h

    # --- angular helpers
    def ang_in(self, phi, strict=False, tol=0.0):
        if self.full:
            return np.ones(np.shape(phi), dtype=bool)
        d = np.mod(phi - self.phi1, TWO_PI)
        if strict:
            return (d > tol) & (d < self.dphi - tol)
        return d <= self.dphi

    def _cyl(self, P):
        P = np.atleast_2d(np.asarray(P, dtype=float))
        r = np.hypot(P[:, 0], P[:, 1])
        phi = np.arctan2(P[:, 1], P[:, 0])
        return P, r, phi, P[:, 2]

    def inside(self, P):
        P, r, phi, z = self._cyl(P)
        ok = (r < self.r2) & (np.abs(z) < self.h / 2)
        if self.r1 > 0:
            ok &= r > self.r1
        if not self.full:
            ok &= self.ang_in(phi, strict=True)
            ok &= r > 0
        return ok

    # --- 2D distances
    def _d_arc(self, x, y, r, phi, R):
        if R <= 0:
            return r
        if self.full:
            return np.abs(r - R)
        on = self.ang_in(phi)
        e1 = np.hypot(x - R * np.cos(self.phi1), y - R * np.sin(self.phi1))
        e2 = np.hypot(x - R * np.cos(self.phi2), y - R * np.sin(self.phi2))
        return np.where(on, np.abs(r - R), np.minimum(e1, e2))

    def _d_radial(self, x, y, ang):
        c, s = np.cos(ang), np.sin(ang)
        t = np.clip(x * c + y * s, self.r1, self.r2)
        return np.hypot(x - t * c, y - t * s)

    def _d_sector(self, x, y, r, phi):
        inside = (r <= self.r2) & (r >= self.r1) & self.ang_in(phi)
        d = self._d_arc(x, y, r, phi, self.r2)
        if self.r1 > 0:
            d = np.minimum(d, self._d_arc(x, y, r, phi, self.r1))
        if not self.full:
            d = np.minimum(d, self._d_radial(x, y, self.phi1))
            d = np.minimum(d, self._d_radial(x, y, self.phi2))
        return np.where(inside, 0.0, d)

    def dist(self, P):
        P, r, phi, z = self._cyl(P)
        x, y = P[:, 0], P[:, 1]
        ez = np.maximum(np.abs(z) - self.h / 2, 0.0)
        ds = self._d_sector(x, y, r, phi)
        d = np.hypot(ds, np.abs(z - self.h / 2))
        d = np.minimum(d, np.hypot(ds, np.abs(z + self.h / 2)))
        d = np.minimum(d, np.hypot(self._d_arc(x, y, r, phi, self.r2), ez))
        if self.r1 > 0:
            d = np.minimum(d, np.hypot(self._d_arc(x, y, r, phi, self.r1), ez))
        if not self.full:
            d = np.minimum(d, np.hypot(self._d_radial(x, y, self.phi1), ez))
            d = np.minimum(d, np.hypot(self._d_radial(x, y, self.phi2), ez))
        return d

    # --- constructions
    def _faces(self):
        span = TWO_PI if self.full else self.dphi
        fl = [
            ("top", 0.5 * (self.r2**2 - self.r1**2) * span),
            ("bottom", 0.5 * (self.r2**2 - self.r1**2) * span),
            ("outer", self.r2 * span * self.h),
        ]
        if self.r1 > 0:
            fl.append(("inner", self.r1 * span * self.h))
        if not self.full:
            fl.append(("side1", (self.r2 - self.r1) * self.h))
            fl.append(("side2", (self.r2 - self.r1) * self.h))
        return fl

    def _phi_of(self, u):
        if self.full:
            return TWO_PI * u
        return self.phi1 + (0.02 + 0.96 * u) * self.dphi

    def snapped_dir(self, ph):
        """(cos, sin) of the multiple of 90 deg nearest to ph, exact, if that angle lies strictly
        inside the angular range; else None."""
        k = int(np.round(ph / (np.pi / 2)))
        a = k * (np.pi / 2)
        if not self.full and not bool(self.ang_in(np.array([a]), strict=True, tol=1e-9)[0]):
            return None
        return [(1.0, 0.0), (0.0, 1.0), (-1.0, 0.0), (0.0, -1.0)][k % 4]

    def surface_point(self, u):
        fl = self._faces()
        # equal weight per face (small faces matter as much as big ones)
        name = fl[min(int(u[0] * len(fl)), len(fl) - 1)][0]
        a, b = 0.02 + 0.96 * u[1], 0.02 + 0.96 * u[2]
        if name in ("top", "bottom"):
            r = np.sqrt(self.r1**2 + a * (self.r2**2 - self.r1**2))
            ph = self._phi_of(u[2])
            zz = self.h / 2 if name == "top" else -self.h / 2
            return np.array([r * np.cos(ph), r * np.sin(ph), zz]), np.array([0, 0, 1.0 if name == "top" else -1.0]), name
        if name in ("outer", "inner"):
            R = self.r2 if name == "outer" else self.r1
            ph = self._phi_of(u[1])
            zz = (b - 0.5) * self.h
            er = np.array([np.cos(ph), np.sin(ph), 0.0])
            return R * er + np.array([0, 0, zz]), er if name == "outer" else -er, name
        ang = self.phi1 if name == "side1" else self.phi2
        r = self.r1 + a * (self.r2 - self.r1)
        zz = (b - 0.5) * self.h
        n = np.array([np.sin(ang), -np.cos(ang), 0.0])
        if name == "side2":
            n = -n
        return np.array([r * np.cos(ang), r * np.sin(ang), zz]), n, name

    def edge_list(self):
        """names of edges: arcs, radial, axial."""
        ed = []
        for zs in (1, -1):
            ed.append(("arc", self.r2, zs))
            if self.r1 > 0:
                ed.append(("arc", self.r1, zs))
            if not self.full:
                ed.append(("radial", self.phi1, zs))
                ed.append(("radial", self.phi2, zs))
        if not self.full:
            for ang in (self.phi1, self.phi2):
                ed.append(("axial", self.r2, ang))
                if self.r1 > 0:
                    ed.append(("axial", self.r1, ang))
            if self.r1 == 0:
                ed.append(("axial", 0.0, self.phi1))
        return ed

    def edge_point(self, u):
        ed = self.edge_list()
        e = ed[min(int(u[0] * len(ed)), len(ed) - 1)]
        t = 0.05 + 0.9 * u[1]
        ez = np.array([0, 0, 1.0])
        if e[0] == "arc":
            _, R, zs = e
            ph = self._phi_of(u[1])
            er = np.array([np.cos(ph), np.sin(ph), 0.0])
            S = R * er + zs * self.h / 2 * ez
            n1 = er if R == self.r2 else -er
            tang = np.array([-np.sin(ph), np.cos(ph), 0.0])
            return S, n1, zs * ez, tang, None, None
        if e[0] == "radial":
            _, ang, zs = e
            er = np.array([np.cos(ang), np.sin(ang), 0.0])
            A = self.r1 * er + zs * self.h / 2 * ez
            B = self.r2 * er + zs * self.h / 2 * ez
            n = np.array([np.sin(ang), -np.cos(ang), 0.0])
            if ang == self.phi2:
                n = -n
            return A + t * (B - A), n, zs * ez, er, A, B
        _, R, ang = e
        er = np.array([np.cos(ang), np.sin(ang), 0.0])
        A = R * er - self.h / 2 * ez
        B = R * er + self.h / 2 * ez
        n = np.array([np.sin(ang), -np.cos(ang), 0.0])
        if ang == self.phi2:
            n = -n
        n1 = er if R == self.r2 else -er
        if R == 0.0:
            n1 = -np.array([np.cos(self.phi1 + self.dphi / 2), np.sin(self.phi1 + self.dphi / 2), 0.0])
        return A + t * (B - A), n1, n, ez, A, B

    def vertex_point(self, u):
        vs = []
        angs = [self.phi1, self.phi2] if not self.full else []
        rs = [self.r2] + ([self.r1] if self.r1 > 0 else [0.0])
        for ang in angs:
            for R in rs:
                for zs in (1, -1):
                    vs.append(np.array([R * np.cos(ang), R * np.sin(ang), zs * self.h / 2]))
        if not vs:
            return None
        k = min(int(u[0] * len(vs)), len(vs) - 1)
        mid = self.phi1 + self.dphi / 2
        c = 0.5 * (self.r1 + self.r2) * np.array([np.cos(mid), np.sin(mid), 0.0])
        return vs[k], unit(vs[k] - c)


class SphereBody(Body):
    cls = "Sphere"

    def __init__(self, diameter):
        self.R = float(diameter) / 2
        self.L = float(diameter) if diameter > 0 else 1.0

    def volume(self):
        return 4.0 / 3.0 * np.pi * self.R**3

    def inside(self, P):
        return np.linalg.norm(np.atleast_2d(P), axis=1) < self.R

    def dist(self, P):
        return np.abs(np.linalg.norm(np.atleast_2d(P), axis=1) - self.R)

    def surface_point(self, u):
        n = direction_from_u(u[1], u[2])
        return self.R * n, n, "surface"


class CircleBody(Body):
    cls = "Circle"
    kind = "current"

    def __init__(self, diameter):
        self.R = float(diameter) / 2
        self.L = float(diameter) if diameter > 0 else 1.0

    def dist(self, P):
        P = np.atleast_2d(P)
        return np.hypot(np.hypot(P[:, 0], P[:, 1]) - self.R, P[:, 2])

    def surface_point(self, u):
        ph = TWO_PI * u[1]
        S = self.R * np.array([np.cos(ph), np.sin(ph), 0.0])
        t = np.array([-np.sin(ph), np.cos(ph), 0.0])
        return S, perpendicular(t, TWO_PI * u[2]), "wire"


class PolylineBody(Body):
    cls = "Polyline"
    kind = "current"

    def __init__(self, vertices):
        self.V = np.asarray(vertices, dtype=float)
        ext = self.V.max(0) - self.V.min(0)
        self.L = float(np.max(ext)) if np.max(ext) > 0 else 1.0

    def dist(self, P):
        return dist_to_segments(P, self.V[:-1], self.V[1:])

    def _seg(self, u0):
        n = len(self.V) - 1
        k = min(int(u0 * n), n - 1)
        return self.V[k], self.V[k + 1]

    def surface_point(self, u):
        A, B = self._seg(u[0])
        S = A + (0.02 + 0.96 * u[1]) * (B - A)
        t = B - A
        if np.linalg.norm(t) == 0:
            t = np.array([0, 0, 1.0])
        return S, perpendicular(t, TWO_PI * u[2]), "wire"

    def edge_point(self, u):
        A, B = self._seg(u[0])
        t = B - A
        if np.linalg.norm(t) == 0:
            return None
        n1 = perpendicular(t, 0.0)
        n2 = perpendicular(t, np.pi / 2)
        return A + (0.05 + 0.9 * u[1]) * t, n1, n2, unit(t), A, B

    def vertex_point(self, u):
        k = min(int(u[0] * len(self.V)), len(self.V) - 1)
        return self.V[k], direction_from_u(u[1], u[2])


class DipoleBody(Body):
    cls = "Dipole"
    kind = "dipole"
    L = 1.0

    def dist(self, P):
        return np.linalg.norm(np.atleast_2d(P), axis=1)

    def surface_point(self, u):
        n = direction_from_u(u[1], u[2])
        return np.zeros(3), n, "point"


class FreeBody(Body):
    """CustomSource: no geometry, no singular set."""

    cls = "CustomSource"
    kind = "custom"
    L = 1.0

    def dist(self, P):
        return np.full(len(np.atleast_2d(P)), 1e9)

    def surface_point(self, u):
        n = direction_from_u(u[1], u[2])
        return n, n, "none"


def body_from_spec(spec) -> Body:
    c = spec["cls"]
    if c == "CustomSource":
        return FreeBody()
    if c == "Cuboid":
        return cuboid_body(spec["dimension"])
    if c == "Cylinder":
        d, h = spec["dimension"]
        return CylSeg(0.0, d / 2, h, 0.0, TWO_PI, cls="Cylinder", full=True)
    if c == "CylinderSegment":
        r1, r2, h, p1, p2 = spec["dimension"]
        return CylSeg(r1, r2, h, np.deg2rad(p1), np.deg2rad(p2), full=(p2 - p1 >= 360.0))
    if c == "Sphere":
        return SphereBody(spec["diameter"])
    if c == "Tetrahedron":
        V = np.asarray(spec["vertices"], dtype=float)
        F = orient_outward(V, [[0, 1, 2], [0, 1, 3], [0, 2, 3], [1, 2, 3]])
        return Polyhedron(V, F, cls="Tetrahedron")
    if c == "TriangularMesh":
        V = np.asarray(spec["vertices"], dtype=float)
        F = orient_outward(V, spec["faces"])
        return Polyhedron(V, F, cls="TriangularMesh")
    if c == "Triangle":
        V = np.asarray(spec["vertices"], dtype=float)
        return Polyhedron(V, [[0, 1, 2]], cls="Triangle", closed=False)
    if c == "Circle":
        return CircleBody(spec["diameter"])
    if c == "Polyline":
        return PolylineBody(spec["vertices"])
    if c == "Dipole":
        return DipoleBody()
    raise ValueError(c)


# --------------------------------------------------------------------------------------
# observers by region (local frame)

REGIONS_COMMON = ["generic", "far", "near_out", "near_in", "near_edge", "near_corner", "edge_extension", "inside"]
REGIONS_AXIAL = ["near_axis", "rim_radius", "axis_exact"]
REGIONS_SEGMENT = ["segment_plane", "base_plane", "mantle_ext"]


def regions_for(body: Body):
    r = ["generic", "far", "near_out"]
    if body.kind == "magnet":
        r += ["near_in", "inside"]
    if isinstance(body, (Polyhedron, PolylineBody)):
        r += ["near_edge", "near_corner", "edge_extension"]
    if isinstance(body, CylSeg):
        r += ["near_edge", "near_axis", "rim_radius", "base_plane", "mantle_ext"]
        if body.r1 > 0:
            r += ["bore"]  # the hole of a ring / ring sector: r < r1 between the base planes (outside the body)
        if not body.full:
            r += ["near_corner", "edge_extension", "segment_plane"]
    if isinstance(body, CircleBody):
        r += ["near_axis", "rim_radius", "base_plane"]
    return r


def observer_in_region(body: Body, region: str, u, clear=1e-3):
    """Construct one observer (local frame) in `region` from 8 uniforms u.
    Returns None when the construction is not possible for this body or the clearance
    `clear*L` from the surface cannot be met (caller counts these)."""
    L = body.L
    p = None
    if region == "generic":
        p = (np.array(u[1:4]) * 2 - 1) * 2.0 * L
    elif region == "far":
        p = direction_from_u(u[1], u[2]) * L * logu(u[3], 0.5, 3.0)
    elif region in ("near_out", "near_in"):
        S, n, _ = body.surface_point(u)
        d = L * logu(u[3], np.log10(clear), -1.0)
        p = S + n * d if region == "near_out" else S - n * d
    elif region == "bore":
        if isinstance(body, CylSeg) and body.r1 > 0:
            r = body.r1 * np.sqrt(u[1]) * (1 - 2 * clear) - clear * L
            if r > 0:
                ph = TWO_PI * u[2] - np.pi
                p = np.array([r * np.cos(ph), r * np.sin(ph), (u[3] - 0.5) * body.h * 0.98])
    elif region == "inside":
        if isinstance(body, CylSeg):
            r = np.sqrt(body.r1**2 + u[1] * (body.r2**2 - body.r1**2))
            ph = body._phi_of(u[2])  # pylint: disable=protected-access
            p = np.array([r * np.cos(ph), r * np.sin(ph), (u[3] - 0.5) * body.h * 0.98])
        elif isinstance(body, SphereBody):
            p = direction_from_u(u[1], u[2]) * body.R * (u[3] ** (1 / 3)) * 0.99
        elif isinstance(body, Polyhedron) and body.closed:
            S, n, _ = body.surface_point(u)
            # go inward from a surface point by a fraction of the local thickness
            p = S - n * L * logu(u[3], -2.5, -0.5)
    elif region == "near_edge":
        e = body.edge_point(u)
        if e is not None:
            S, n1, n2, _t, _A, _B = e
            ang = u[2] * np.pi / 2
            dvec = unit(np.cos(ang) * n1 + np.sin(ang) * n2)
            sgn = 1.0 if u[4] < 0.6 else -1.0
            p = S + sgn * dvec * L * logu(u[3], np.log10(clear) + 0.2, -1.0)
    elif region == "near_corner":
        v = body.vertex_point(u)
        if v is not None:
            S, out = v
            dvec = unit(out + 0.8 * direction_from_u(u[1], u[2]))
            p = S + dvec * L * logu(u[3], np.log10(clear) + 0.2, -1.0)
    elif region == "edge_extension":
        e = body.edge_point(u)
        if e is not None and e[4] is not None:
            _S, n1, n2, t, A, B = e
            end, sgn = (B, 1.0) if u[4] < 0.5 else (A, -1.0)
            along = L * logu(u[5], np.log10(clear) + 0.3, 0.5)
            trans = L * logu(u[3], -6.0, -1.0) if u[6] < 0.8 else 0.0
            dvec = unit(np.cos(TWO_PI * u[2]) * n1 + np.sin(TWO_PI * u[2]) * n2)
            p = end + sgn * t * along + dvec * trans
    elif region == "near_axis" and isinstance(body, (CylSeg, CircleBody)):
        r0 = body.r2 if isinstance(body, CylSeg) else body.R
        h = body.h if isinstance(body, CylSeg) else r0
        r = r0 * logu(u[1], -6.0, -1.0)
        ph = TWO_PI * u[2]
        z = (u[3] * 2 - 1) * 1.5 * max(h, r0)
        p = np.array([r * np.cos(ph), r * np.sin(ph), z])
    elif region == "axis_exact" and isinstance(body, (CylSeg, CircleBody)):
        r0 = body.r2 if isinstance(body, CylSeg) else body.R
        h = body.h if isinstance(body, CylSeg) else r0
        p = np.array([0.0, 0.0, (u[3] * 2 - 1) * 1.5 * max(h, r0)])
    elif region == "rim_radius" and isinstance(body, (CylSeg, CircleBody)):
        if isinstance(body, CylSeg):
            R = body.r2 if (u[4] < 0.6 or body.r1 == 0) else body.r1
            h2 = body.h / 2
        else:
            R, h2 = body.R, 0.0
        sgn = 1.0 if u[5] < 0.5 else -1.0
        r = R * (1.0 + sgn * logu(u[1], -6.0, -2.0)) if u[6] < 0.8 else R
        ph = TWO_PI * u[2]
        zz = h2 + L * logu(u[3], np.log10(clear) + 0.1, 0.3)
        if u[7] < 0.5:
            zz = -zz
        p = np.array([r * np.cos(ph), r * np.sin(ph), zz])
    elif region == "base_plane" and isinstance(body, (CylSeg, CircleBody)):
        # in a base plane z = +-h/2 (or the loop plane), radially outside / inside the hole
        if isinstance(body, CylSeg):
            zz = body.h / 2 if u[4] < 0.5 else -body.h / 2
            R = body.r2
        else:
            zz, R = 0.0, body.R
        if u[5] < 0.7 or not isinstance(body, CylSeg) or body.r1 == 0:
            if isinstance(body, CircleBody) and u[5] >= 0.7:
                r = R * (1.0 - logu(u[1], np.log10(clear) + 0.5, -0.01))
            else:
                r = R + L * logu(u[1], np.log10(clear) + 0.1, 0.5)
        else:
            r = body.r1 * (1.0 - logu(u[1], -1.5, -0.01))
        ph = TWO_PI * u[2]
        p = np.array([r * np.cos(ph), r * np.sin(ph), zz])
    elif region == "mantle_ext" and isinstance(body, CylSeg):
        # exactly on r = r_i, beyond the body in z
        R = body.r2 if (u[4] < 0.6 or body.r1 == 0) else body.r1
        ph = TWO_PI * u[2]
        zz = body.h / 2 + L * logu(u[3], np.log10(clear) + 0.1, 0.5)
        if u[5] < 0.5:
            zz = -zz
        p = np.array([R * np.cos(ph), R * np.sin(ph), zz])
    elif region == "segment_plane" and isinstance(body, CylSeg) and not body.full:
        # in a half plane phi = phi_j (or its mirror phi_j + pi), off the body
        ang = body.phi1 if u[4] < 0.5 else body.phi2
        if u[5] < 0.25:
            ang = ang + np.pi
        r = body.r2 * logu(u[1], -2.0, 0.5)
        zz = (u[3] * 2 - 1) * 1.5 * body.h
        p = np.array([r * np.cos(ang), r * np.sin(ang), zz])
    if p is None:
        return None
    p = np.asarray(p, dtype=float)
    if not np.all(np.isfinite(p)):
        return None
    d = float(body.dist(p[None])[0])
    if d < clear * L * 0.999:
        return None
    return p


def classify(body: Body, p_local):
    """(inside?, distance/L) for reporting."""
    d = float(body.dist(np.asarray(p_local)[None])[0])
    ins = bool(body.inside(np.asarray(p_local)[None])[0]) if body.kind == "magnet" else False
    return ins, d / body.L


# --------------------------------------------------------------------------------------
# points exactly on special sets (local frame) for C02 / C15

SPECIAL_KINDS = ["on_face", "on_edge", "on_corner", "on_axis", "center"]


def special_point(body: Body, kind: str, u):
    """A point constructed on a special set of the body.  Where the geometry allows it the
    coordinates are exact in floating point (axis-aligned faces, rim points at multiples of
    90 deg, vertices); otherwise they are the rounded nearest representable point.
    Returns (point, detail) or None."""
    if kind == "center":
        if isinstance(body, Polyhedron):
            return body.centroid.copy(), "centroid"
        return np.zeros(3), "origin"
    if kind == "on_axis" and isinstance(body, (CylSeg, CircleBody)):
        h = body.h if isinstance(body, CylSeg) else body.R
        choices = [0.0, h / 2, -h / 2, (u[3] - 0.5) * h, (1.0 + u[3]) * h, -(1.0 + u[3]) * h]
        z = choices[min(int(u[0] * len(choices)), len(choices) - 1)]
        return np.array([0.0, 0.0, z]), "axis"
    if kind == "on_face":
        if isinstance(body, CylSeg):
            S, n, name = body.surface_point(u)
            if u[7] < 0.5 and name in ("outer", "inner", "top", "bottom"):
                r = np.hypot(S[0], S[1])
                if name in ("outer", "inner"):
                    r = body.r2 if name == "outer" else body.r1
                d = body.snapped_dir(np.arctan2(S[1], S[0]))
                if d is not None:
                    return np.array([r * d[0], r * d[1], S[2]]), name + "_snapped"
            return S, name
        if isinstance(body, SphereBody):
            if u[7] < 0.5:
                k = int(u[1] * 6) % 6
                p = np.zeros(3)
                p[k % 3] = body.R if k < 3 else -body.R
                return p, "surface_snapped"
            S, _n, _ = body.surface_point(u)
            return S, "surface"
        S, _n, name = body.surface_point(u)
        return S, name
    if kind == "on_edge":
        if isinstance(body, CylSeg):
            e = body.edge_point(u)
            S = e[0]
            if u[7] < 0.5 and e[4] is None:  # arc: snap the azimuth
                r = np.hypot(S[0], S[1])
                R_ = body.r2 if abs(r - body.r2) < abs(r - body.r1) or body.r1 == 0 else body.r1
                d = body.snapped_dir(np.arctan2(S[1], S[0]))
                if d is not None:
                    return np.array([R_ * d[0], R_ * d[1], S[2]]), "arc_snapped"
            return S, "edge"
        e = body.edge_point(u)
        if e is None:
            return None
        return e[0], "edge"
    if kind == "on_corner":
        v = body.vertex_point(u)
        if v is None:
            return None
        return np.array(v[0], dtype=float), "vertex"
    return None


# --------------------------------------------------------------------------------------
# distance to the special sets INCLUDING their prolongations (edge lines, planes z=z_k, cylinders
# r=r_i, half planes phi=phi_j, the axis): where the closed forms are documented to lose accuracy


def _dist_to_lines(P, A, B):
    P = np.atleast_2d(P)[:, None, :]
    t = unit(np.asarray(B) - np.asarray(A))[None]
    d = P - np.asarray(A)[None]
    perp = d - np.sum(d * t, -1, keepdims=True) * t
    return np.min(np.linalg.norm(perp, axis=-1), axis=1)


def special_dist(body: Body, P, with_name=False, all_sets=False):
    """distance (absolute) from points P to the nearest special set of the body, prolongations included;
    with_name=True also returns the name of that set per point"""
    P = np.atleast_2d(np.asarray(P, dtype=float))
    cands = []  # (name, distances)
    if isinstance(body, Polyhedron):
        ed = body.edges()
        if ed:
            A = np.array([e[0] for e in ed])
            B = np.array([e[1] for e in ed])
            cands.append(("edge_line", _dist_to_lines(P, A, B)))
        cands.append(("surface", body.dist(P)))
    elif isinstance(body, PolylineBody):
        m = np.any(body.V[:-1] != body.V[1:], axis=1)
        cands.append(("segment_line", _dist_to_lines(P, body.V[:-1][m], body.V[1:][m])))
    elif isinstance(body, CylSeg):
        r = np.hypot(P[:, 0], P[:, 1])
        phi = np.arctan2(P[:, 1], P[:, 0])
        z = P[:, 2]
        cands.append(("axis", r))
        cands.append(("r2", np.abs(r - body.r2)))
        if body.r1 > 0:
            cands.append(("r1", np.abs(r - body.r1)))
        cands.append(("z_plane", np.minimum(np.abs(z - body.h / 2), np.abs(z + body.h / 2))))
        if not body.full:
            d = np.full(len(P), np.inf)
            for ang in (body.phi1, body.phi2):
                d = np.minimum(d, np.abs(r * np.sin(phi - ang)))
            cands.append(("phi_plane", d))
    elif isinstance(body, CircleBody):
        r = np.hypot(P[:, 0], P[:, 1])
        cands.append(("wire", body.dist(P)))
        cands.append(("axis", r))
        cands.append(("r0", np.abs(r - body.R)))
    else:
        cands.append(("surface", body.dist(P)))
    if all_sets:
        return {name: d for name, d in cands}
    D = np.stack([c[1] for c in cands])
    k = np.argmin(D, axis=0)
    dmin = D[k, np.arange(len(P))]
    if with_name:
        return dmin, [cands[i][0] for i in k]
    return dmin
