"""Entry point of every check:  python -m vf.runner C08 --tier quick|thorough [--replay FILE]

exit 0  property held on everything explored (KNOWN-FINDING lines for listed open findings)
exit 1  at least one violation that known_findings.json does not list; one line
        `VIOLATION property=<id> replay=<path>` per distinct root-cause signature
exit 2  harness error (never a verdict about the code under test)
"""
from __future__ import annotations

import argparse
import glob
import json
import os
import shutil
import subprocess
import sys
import tempfile
import time

from vf import core

NPROC = int(os.environ.get("VERIF_NPROC", "16"))


def _child_env():
    env = dict(os.environ)
    env["PYTHONHASHSEED"] = "0"
    env["PYTHONDONTWRITEBYTECODE"] = "1"
    for k in ("OMP_NUM_THREADS", "OPENBLAS_NUM_THREADS", "MKL_NUM_THREADS", "NUMEXPR_NUM_THREADS"):
        env[k] = "1"
    env["MPLBACKEND"] = "Agg"
    deps = os.path.join(core.VERIF_ROOT, ".deps")
    pp = [core.REPO_ROOT, core.VERIF_ROOT]
    if env.get("PYTHONPATH"):
        pp.append(env["PYTHONPATH"])
    pp.append(deps)  # fallback copies of hypothesis etc. (only used if /venv lacks them)
    env["PYTHONPATH"] = os.pathsep.join(pp)
    env["VERIF_REPO"] = core.REPO_ROOT
    return env


def _spawn(args, out, log):
    cmd = [sys.executable, "-m", "vf.worker"] + args + ["--out", out]
    lf = open(log, "w", encoding="utf-8")  # pylint: disable=consider-using-with
    return subprocess.Popen(  # pylint: disable=consider-using-with
        cmd, cwd=core.VERIF_ROOT, env=_child_env(), stdout=lf, stderr=subprocess.STDOUT
    ), lf


def _run_workers(jobs, workdir, timeout_s):
    """jobs: list of (name, args). Returns dict name -> result dict (or harness error)."""
    procs = {}
    pending = list(jobs)
    results = {}
    t_end = time.time() + timeout_s
    while pending or procs:
        while pending and len(procs) < NPROC:
            name, args = pending.pop(0)
            out = os.path.join(workdir, name + ".json")
            log = os.path.join(workdir, name + ".log")
            p, lf = _spawn(args, out, log)
            procs[name] = (p, lf, out, log)
        done = []
        for name, (p, lf, out, log) in procs.items():
            rc = p.poll()
            if rc is None:
                continue
            lf.close()
            done.append(name)
            if os.path.exists(out):
                with open(out, encoding="utf-8") as f:
                    results[name] = json.load(f)
            else:
                with open(log, encoding="utf-8", errors="replace") as f:
                    tail = f.read()[-3000:]
                results[name] = {"ok": False, "harness_error": f"worker exit {rc}: {tail}"}
        for name in done:
            del procs[name]
        if time.time() > t_end:
            for name, (p, lf, out, log) in procs.items():
                p.kill()
                lf.close()
                results[name] = {"ok": False, "harness_error": "worker wall-clock safety limit hit (inconclusive)"}
            procs = {}
            for name, _ in pending:
                results[name] = {"ok": False, "harness_error": "not started: safety limit hit"}
            pending = []
        if procs:
            time.sleep(0.05)
    return results


def _failure_path(prop_id, sig):
    d = os.path.join(core.VERIF_ROOT, "failures", prop_id)
    os.makedirs(d, exist_ok=True)
    return os.path.join(d, core.case_hash(sig) + ".json")


def main(argv=None):
    ap = argparse.ArgumentParser()
    ap.add_argument("prop")
    ap.add_argument("--tier", default=os.environ.get("VERIF_TIER", "quick"), choices=["quick", "thorough"])
    ap.add_argument("--replay", default=None)
    ap.add_argument("--examples", type=int, default=None, help="override total generated cases")
    ap.add_argument("--no-evidence", action="store_true")
    a = ap.parse_args(argv)

    t0 = time.time()
    prop_id = a.prop.upper()
    seed = int(os.environ.get("VERIF_SEED", "1") or "1")
    try:
        prop = core.load_prop(prop_id)
    except Exception as e:  # pylint: disable=broad-except
        print(f"HARNESS-ERROR: cannot load property module {prop_id}: {e!r}")
        return 2
    known = core.load_known_findings(prop_id)
    workdir = tempfile.mkdtemp(prefix=f"vf_{prop_id}_", dir=os.environ.get("VERIF_WORK", None) or _workroot())
    try:
        return _main(a, prop, prop_id, seed, known, workdir, t0)
    finally:
        shutil.rmtree(workdir, ignore_errors=True)


def _workroot():
    d = os.path.join(core.VERIF_ROOT, ".work")
    os.makedirs(d, exist_ok=True)
    return d


def _main(a, prop, prop_id, seed, known, workdir, t0):
    tier = a.tier
    budget = dict(prop.budget(tier))
    nshards = max(1, int(budget.get("shards", NPROC)))  # may exceed NPROC: shards are queued, which balances uneven case costs
    safety = budget.get("safety_s", 1800 if tier == "quick" else 6 * 3600)

    # ---------------------------------------------------------------- replay-only mode
    if a.replay:
        res = _run_workers(
            [("replay", ["--prop", prop_id, "--tier", tier, "--mode", "replay", "--files", os.path.abspath(a.replay)])],
            workdir, safety,
        )["replay"]
        if not res.get("ok"):
            print("HARNESS-ERROR:", res.get("harness_error"))
            return 2
        bad = False
        for ent in res["extra"]["replayed"]:
            for v in ent["violations"]:
                if v["known"]:
                    print(f"KNOWN-FINDING: property={prop_id} {v['known']} sig={json.dumps(v['sig'], sort_keys=True)}")
                else:
                    bad = True
                    print(f"VIOLATION property={prop_id} replay={a.replay}")
                    print("  sig:", json.dumps(v["sig"], sort_keys=True))
                    print("  detail:", v["detail"])
            if not ent["violations"]:
                print(f"replay {ent['file']}: property holds")
        return 1 if bad else 0

    # ---------------------------------------------------------------- jobs
    jobs = []
    replay_files = sorted(glob.glob(os.path.join(core.VERIF_ROOT, "replays", prop_id, "*.json")))
    if replay_files:
        jobs.append(("replay", ["--prop", prop_id, "--tier", tier, "--mode", "replay", "--files"] + replay_files))
    if hasattr(prop, "enumerate_cases"):
        for i in range(nshards):
            jobs.append((f"enum{i}", ["--prop", prop_id, "--tier", tier, "--mode", "enumerate",
                                      "--shard", str(i), "--nshards", str(nshards)]))
    if hasattr(prop, "strategy") or hasattr(prop, "make_machine"):
        for i in range(nshards):
            args = ["--prop", prop_id, "--tier", tier, "--mode", "generate", "--seed", str(seed),
                    "--shard", str(i), "--nshards", str(nshards)]
            if a.examples is not None:
                args += ["--examples", str(a.examples)]
            jobs.append((f"gen{i}", args))
    fuzz_runs = budget.get("fuzz_runs", 0) if hasattr(prop, "strategy") else 0
    if a.examples is not None and fuzz_runs:
        fuzz_runs = min(fuzz_runs, a.examples)
    if fuzz_runs:
        for i in range(nshards):
            jobs.append((f"fuzz{i}", ["--prop", prop_id, "--tier", tier, "--mode", "fuzz", "--seed", str(seed),
                                      "--shard", str(i), "--nshards", str(nshards),
                                      "--examples", str(max(1, -(-fuzz_runs // nshards)))]))
    results = _run_workers(jobs, workdir, safety)

    # ---------------------------------------------------------------- merge
    harness_errors = [(n, r.get("harness_error")) for n, r in results.items() if not r.get("ok")]
    evaluations = 0
    labels = {}
    nontrivial = set()
    samples = []
    excluded = {}
    inconclusive = 0
    extra = {}
    found = []  # (sig, detail, case)
    replay_report = []
    for name in sorted(results):
        r = results[name]
        if not r.get("ok"):
            continue
        evaluations += r.get("evaluations", 0)
        for k, v in r.get("labels", {}).items():
            labels[k] = labels.get(k, 0) + v
        nontrivial.update(r.get("nontrivial", []))
        if len(samples) < 8:
            samples.extend(r.get("samples", [])[: max(1, 8 - len(samples))][:2])
        for k, v in r.get("excluded_known", {}).items():
            excluded[k] = excluded.get(k, 0) + v
        inconclusive += r.get("inconclusive", 0)
        for k, v in r.get("extra", {}).items():
            if k == "replayed":
                replay_report = v
            elif isinstance(v, (int, float)):
                extra[k] = extra.get(k, 0) + v
            else:
                extra.setdefault(k, v)
        found.extend(r.get("found", []))

    # replays: unknown violations there are violations too
    known_hit = {}
    for ent in replay_report:
        for v in ent["violations"]:
            if v["known"]:
                known_hit[v["known"]] = known_hit.get(v["known"], 0) + 1
            else:
                found.append({"sig": v["sig"], "detail": v["detail"], "case": None, "file": ent["file"]})
    for k, v in excluded.items():
        if k != "reported_this_run":
            known_hit[k] = known_hit.get(k, 0) + v

    # distinct root causes
    by_sig = {}
    for f in found:
        key = core.canonical(f["sig"])
        if key not in by_sig:
            by_sig[key] = f
        elif by_sig[key].get("case") is None and f.get("case") is not None:
            by_sig[key] = f

    lines = []
    for key, f in sorted(by_sig.items()):
        if f.get("file"):
            path = f["file"]
        else:
            path = _failure_path(prop_id, f["sig"])
            with open(path, "w", encoding="utf-8") as fh:
                json.dump({"property": prop_id, "sig": f["sig"], "detail": f["detail"], "case": f["case"],
                           "tier": tier, "seed": seed}, fh, indent=1, sort_keys=True)
        lines.append((path, f))

    # known findings: one line each while they still reproduce
    for e in known:
        kid = e.get("id", "known")
        n = known_hit.get(kid, 0)
        if n > 0:
            print(f"KNOWN-FINDING: property={prop_id} {kid}: {e.get('what', '')} [reproduced {n}x in this run]")
        else:
            print(f"NOTE: property={prop_id} listed finding {kid} was not reproduced in this run")

    for path, f in lines:
        print(f"VIOLATION property={prop_id} replay={os.path.relpath(path, core.VERIF_ROOT)}")
        print("  sig:", json.dumps(f["sig"], sort_keys=True))
        print("  detail:", str(f["detail"])[:600])

    wall = time.time() - t0
    missing = []
    if hasattr(prop, "required_labels"):
        missing = [l for l in prop.required_labels(tier) if labels.get(l, 0) == 0]

    if not a.no_evidence and evaluations > 0:
        ev = {
            "property_id": prop_id,
            "tier": tier,
            "seed": seed,
            "level": getattr(prop, "LEVEL", "exploration"),
            "coverage": {
                "evaluations": evaluations,
                "distinct_nontrivial": len(nontrivial),
                "rule": prop.RULE,
                "samples": samples[:8],
                "labels": dict(sorted(labels.items())),
                "excluded_as_known": excluded,
                "known_findings_reproduced": known_hit,
                "oracle_inconclusive": inconclusive,
                "replay_files": len(replay_files),
                "shards": nshards,
                "missing_required_labels": missing,
                **{k: v for k, v in extra.items()},
            },
            "assumptions": list(getattr(prop, "ASSUMPTIONS", [])),
            "wall_s": round(wall, 2),
            "violations": len(lines),
        }
        if extra.get("exhaustive_subspace"):
            ev["coverage"]["exhaustive_subspace_size"] = extra.get("enumerated", 0)
        os.makedirs(os.path.join(core.VERIF_ROOT, "evidence"), exist_ok=True)
        evp = os.path.join(core.VERIF_ROOT, "evidence", f"{prop_id}.json")
        with open(evp + ".tmp", "w", encoding="utf-8") as fh:
            json.dump(core.to_jsonable(ev), fh, indent=1, sort_keys=True)
        os.replace(evp + ".tmp", evp)

    print(f"[{prop_id} {tier} seed={seed}] evaluations={evaluations} distinct_nontrivial={len(nontrivial)} "
          f"inconclusive={inconclusive} known_excluded={sum(v for k, v in excluded.items())} "
          f"violations={len(lines)} wall={wall:.1f}s")
    if missing:
        print(f"NOTE: required labels with zero cases: {missing}")
    if lines:
        return 1
    if harness_errors:
        for n, e in harness_errors[:2]:
            print(f"HARNESS-ERROR [{n}]: {str(e)[:3000]}")
        print(f"HARNESS-ERROR: {len(harness_errors)} worker(s) failed")
        return 2
    if evaluations == 0:
        print("HARNESS-ERROR: nothing was evaluated")
        return 2
    return 0


if __name__ == "__main__":
    sys.exit(main())
