"""Tree specs (collections of sources / sensors / collections) and their construction."""
from __future__ import annotations

from hypothesis import strategies as st

from vf import build, gen


def build_tree(spec, registry=None):
    """Build the object of a (possibly nested) spec; every created object is appended to
    `registry` as (object, spec) in pre-order."""
    if registry is None:
        registry = []
    cls = spec["cls"]
    if cls == "Collection":
        coll = build.magpy.Collection()
        registry.append((coll, spec))
        for ch in spec.get("children", []):
            coll.add(build_tree(ch, registry))
        # pose of the collection is applied last (moves children along, like a user would)
        if "position" in spec:
            # set the collection pose without dragging children: children specs are absolute
            coll._position = build.np.asarray(spec["position"], dtype=float)  # pylint: disable=protected-access
            coll._orientation = build.rot_of(spec["orientation"])  # pylint: disable=protected-access
        return coll
    if cls == "Sensor":
        obj = build.build_sensor(spec)
    else:
        obj = build.build_source(spec)
    registry.append((obj, spec))
    return obj


def leaf_sources(spec):
    """Leaf source specs of a tree spec in pre-order."""
    if spec["cls"] == "Collection":
        out = []
        for ch in spec.get("children", []):
            out.extend(leaf_sources(ch))
        return out
    if spec["cls"] == "Sensor":
        return []
    return [spec]


def leaf_sensors(spec):
    if spec["cls"] == "Collection":
        out = []
        for ch in spec.get("children", []):
            out.extend(leaf_sensors(ch))
        return out
    if spec["cls"] == "Sensor":
        return [spec]
    return []


def depth(spec):
    if spec["cls"] != "Collection":
        return 0
    return 1 + max([depth(c) for c in spec.get("children", [])] or [0])


@st.composite
def collection_spec(draw, leaf, max_depth=2, max_children=3, need_source=True, sensor=None, min_children=1):
    """Nested collection of leaves drawn from `leaf` (a strategy of source specs); with
    `sensor` (strategy) sensors are mixed in."""
    n = draw(st.integers(min_children, max_children))
    children = []
    for _ in range(n):
        kind = draw(st.sampled_from(["leaf", "leaf", "leaf", "coll", "sensor"]))
        if kind == "coll" and max_depth > 1:
            children.append(draw(collection_spec(leaf, max_depth=max_depth - 1, max_children=max_children,
                                                 need_source=False, sensor=sensor, min_children=1)))
        elif kind == "sensor" and sensor is not None:
            children.append(draw(sensor))
        else:
            children.append(draw(leaf))
    spec = {"cls": "Collection", "children": children}
    if need_source and not leaf_sources(spec):
        children.append(draw(leaf))
    spec.update(draw(gen.pose_path(max_len=1)))
    return spec
