"""Specs -> magpylib objects, snapshots of objects, calling the library safely."""
from __future__ import annotations

import contextlib
import warnings

import numpy as np
from scipy.spatial.transform import Rotation as R

from vf import core

magpy = core.import_magpylib()

CLASSES = {
    "Cuboid": magpy.magnet.Cuboid,
    "Cylinder": magpy.magnet.Cylinder,
    "CylinderSegment": magpy.magnet.CylinderSegment,
    "Sphere": magpy.magnet.Sphere,
    "Tetrahedron": magpy.magnet.Tetrahedron,
    "TriangularMesh": magpy.magnet.TriangularMesh,
    "Triangle": magpy.misc.Triangle,
    "Circle": magpy.current.Circle,
    "Polyline": magpy.current.Polyline,
    "Dipole": magpy.misc.Dipole,
    "CustomSource": magpy.misc.CustomSource,
    "Sensor": magpy.Sensor,
    "Collection": magpy.Collection,
}

GEOM_KEYS = ("dimension", "diameter", "vertices", "faces", "polarization", "magnetization", "current", "moment")


@contextlib.contextmanager
def quiet():
    """Context manager silencing library warnings (mesh checks, in_out ignored...)."""
    with warnings.catch_warnings():
        warnings.simplefilter("ignore")
        with np.errstate(all="ignore"):
            yield


def rot_of(quats):
    q = np.asarray(quats, dtype=float)
    return R.from_quat(q)


def apply_pose(obj, spec):
    """Assign the pose path of a spec (position and orientation lists of equal length)."""
    pos = np.asarray(spec.get("position", [[0, 0, 0]]), dtype=float)
    ori = np.asarray(spec.get("orientation", [[0, 0, 0, 1]]), dtype=float)
    if len(pos) == 1 and len(ori) == 1:
        obj.position = pos[0]
        obj.orientation = R.from_quat(ori[0])
    else:
        obj.position = pos
        obj.orientation = R.from_quat(ori)
    return obj


def build_source(spec, pose=True):
    cls = spec["cls"]
    kw = {k: spec[k] for k in GEOM_KEYS if k in spec}
    with warnings.catch_warnings():
        warnings.simplefilter("ignore")
        if cls == "CustomSource":
            obj = magpy.misc.CustomSource(field_func=custom_func(spec.get("func")))
        else:
            if cls == "TriangularMesh" and spec.get("mesh_checks") == "skip":
                # construction without any of the (lazy, cached) status checks; the generated faces are already outward
                kw.update(check_open="skip", check_disconnected="skip", check_selfintersecting="skip", reorient_faces="skip")
            obj = CLASSES[cls](**kw)
    if pose:
        apply_pose(obj, spec)
    return obj


def custom_func(par):
    """Deterministic custom field function from its parameters (None -> no function)."""
    if par is None:
        return None
    A = np.asarray(par["A"], dtype=float)
    b = np.asarray(par["b"], dtype=float)
    mu0 = magpy.mu_0

    def field_func(field, observers):
        obs = np.asarray(observers, dtype=float)
        if field == "B":
            return obs @ A.T + b
        if field == "H":
            return (obs @ A.T + b) / mu0
        return np.zeros_like(obs)

    return field_func


def build_sensor(spec, pose=True):
    s = magpy.Sensor(pixel=spec.get("pixel"), handedness=spec.get("handedness", "right"))
    if pose:
        apply_pose(s, spec)
    return s


def static_copy_spec(spec, m):
    """Spec of the same object frozen at path index min(m, len-1)."""
    out = dict(spec)
    n = len(spec["position"])
    k = min(m, n - 1)
    out["position"] = [spec["position"][k]]
    out["orientation"] = [spec["orientation"][k]]
    return out


def pose_at(spec, m):
    n = len(spec["position"])
    k = min(m, n - 1)
    return np.asarray(spec["position"][k], dtype=float), R.from_quat(spec["orientation"][k])


def to_global(spec, p_local, m=0):
    p, r = pose_at(spec, m)
    return r.apply(np.asarray(p_local, dtype=float)) + p


def to_local(spec, p_global, m=0):
    p, r = pose_at(spec, m)
    return r.apply(np.asarray(p_global, dtype=float) - p, inverse=True)


# --------------------------------------------------------------------------------------


class LibCall:
    """Result of calling the library: .ok, .value or .exc"""

    __slots__ = ("ok", "value", "exc")

    def __init__(self, ok, value=None, exc=None):
        self.ok, self.value, self.exc = ok, value, exc


def call(fn, *a, **k):
    try:
        with warnings.catch_warnings():
            warnings.simplefilter("ignore")
            with np.errstate(all="ignore"):
                return LibCall(True, fn(*a, **k))
    except Exception as e:  # pylint: disable=broad-except
        return LibCall(False, exc=e)


def field_scale(spec):
    """Magnitude that a field component of this source is naturally compared against."""
    c = spec["cls"]
    if "polarization" in spec:
        return float(np.linalg.norm(spec["polarization"]))
    if c in ("Circle", "Polyline"):
        return abs(spec["current"])
    if c == "Dipole":
        return float(np.linalg.norm(spec["moment"]))
    return 1.0


def natural_scale(spec, body, d_rel, field="B"):
    """Upper bound for the magnitude of the field of this source at distance d_rel*L from it: the size of the
    individual contributions (faces, segments) that the closed form adds up.  Where the field is much smaller than this
    (points of symmetry, cancelling wires) the value is a difference of large terms and its absolute error is set by
    this magnitude, not by the value."""
    mu0 = magpy.mu_0
    d = max(float(d_rel), 1e-3)
    cls = spec["cls"]
    if "polarization" in spec:
        b = float(np.linalg.norm(spec["polarization"])) * min(1.0, d**-3)
    elif cls in ("Circle", "Polyline"):
        b = mu0 * abs(float(spec["current"])) / body.L * (min(1e3, 1.0 / d) if d < 1 else d**-2)
    elif cls == "Dipole":
        b = mu0 * float(np.linalg.norm(spec["moment"])) / (4 * np.pi * (d * body.L) ** 3)
    else:
        return 0.0
    return b if field in "BJ" else b / mu0


# -------------------------------------------------------------------------------- snapshots


def snap_array(a):
    if a is None:
        return None
    a = np.asarray(a)
    return (a.dtype.str, a.shape, a.tobytes())


def snapshot_obj(o, style=True):
    """Byte-exact snapshot of everything the property C08/C18/C19 talks about."""
    s = {"type": type(o).__name__}
    s["position"] = snap_array(o._position)  # pylint: disable=protected-access
    s["orientation"] = snap_array(o._orientation.as_quat())  # pylint: disable=protected-access
    s["orientation_single"] = bool(getattr(o._orientation, "single", False))  # pylint: disable=protected-access
    for k in ("dimension", "diameter", "vertices", "faces", "polarization", "magnetization", "current",
              "moment", "pixel", "handedness"):
        if hasattr(o, k):
            try:
                v = getattr(o, k)
            except Exception as e:  # pylint: disable=broad-except
                v = f"<raises {type(e).__name__}>"
            if isinstance(v, np.ndarray):
                v = snap_array(v)
            elif isinstance(v, (list, tuple)):
                v = snap_array(np.asarray(v))
            s[k] = v
    if type(o).__name__ == "TriangularMesh":
        # lazily computed, cached status of the mesh: part of the object's observable state (status_* properties)
        for k in ("_status_open", "_status_disconnected", "_status_selfintersecting", "_status_reoriented"):
            s[k] = getattr(o, k, None)
        for k in ("_status_open_data", "_status_disconnected_data", "_status_selfintersecting_data"):
            v = getattr(o, k, None)
            s[k] = None if v is None else snap_array(np.asarray(v, dtype=float) if not isinstance(v, list) else np.asarray([np.asarray(x, dtype=float).ravel().tolist() for x in v], dtype=object).astype(str))
    if hasattr(o, "_field_func"):
        ff = getattr(o, "_field_func")
        s["field_func"] = id(ff) if type(o).__name__ == "CustomSource" else None
    s["parent"] = id(o._parent) if getattr(o, "_parent", None) is not None else None  # pylint: disable=protected-access
    if hasattr(o, "_children"):
        s["children"] = [id(c) for c in o._children]  # pylint: disable=protected-access
        s["sources"] = [id(c) for c in o._sources]  # pylint: disable=protected-access
        s["sensors"] = [id(c) for c in o._sensors]  # pylint: disable=protected-access
        s["collections"] = [id(c) for c in o._collections]  # pylint: disable=protected-access
    if style:
        s["style"] = style_view(o)
    return s


def _noaddr(text):
    """memory addresses in reprs of function-valued leaves are not part of the style"""
    import re  # pylint: disable=import-outside-toplevel

    return re.sub(r" at 0x[0-9a-fA-F]+", "", text)


def style_view(o):
    """Observable style of an object (what `o.style.as_dict()` would show) computed without
    triggering the object's lazy style creation: lazily pending constructor keywords are
    applied to a scratch style object of the same class."""
    import copy as _copy  # pylint: disable=import-outside-toplevel

    st = getattr(o, "_style", None)
    pending = getattr(o, "_style_kwargs", None) or {}
    try:
        if st is None:
            tmp = o._style_class()  # pylint: disable=protected-access
        elif pending:
            tmp = _copy.deepcopy(st)
        else:
            return _noaddr(repr(st.as_dict()))
        if pending:
            tmp.update(_copy.deepcopy(pending))
        return _noaddr(repr(tmp.as_dict()))
    except Exception as e:  # pylint: disable=broad-except
        return f"<style view raises {type(e).__name__}: {e}>"


def diff_snap(a, b):
    return [k for k in sorted(set(a) | set(b)) if a.get(k) != b.get(k)]
