"""Hypothesis strategies that produce JSON-able *specs* (plain dicts / lists / floats).

spec of a source:  {"cls": ..., <geometry>, <excitation>, "position": [[x,y,z],..],
                    "orientation": [[qx,qy,qz,qw],..]}   (paths of equal length >= 1)
vf.build turns specs into magpylib objects; vf.geom turns them into harness bodies.
Every random choice is a Hypothesis draw.
"""
from __future__ import annotations

import math

import numpy as np
from hypothesis import strategies as st

from vf import geom

MAGNETS = ["Cuboid", "Cylinder", "CylinderSegment", "Sphere", "Tetrahedron", "TriangularMesh"]
CURRENTS = ["Circle", "Polyline"]
FIELD_CLASSES = MAGNETS + ["Triangle"] + CURRENTS + ["Dipole"]
ALL_SOURCES = FIELD_CLASSES + ["CustomSource"]

unit_f = st.floats(0.0, 1.0, exclude_max=True, allow_nan=False, allow_infinity=False)


def uniforms(n):
    return st.lists(unit_f, min_size=n, max_size=n)


def ufloat(lo, hi):
    return st.floats(lo, hi, allow_nan=False, allow_infinity=False)


def logfloat(lo_exp, hi_exp):
    return ufloat(lo_exp, hi_exp).map(lambda e: float(10.0**e))


def r6(x):
    """Round generated geometry to 6 significant digits - keeps replay files readable and
    loses nothing (the special values are constructed, not hit by chance)."""
    if abs(x) < 1e-30:
        # Hypothesis likes denormal-sized floats; coordinates whose square underflows are C15's subject (offset ladder),
        # everywhere else they would only re-discover that r**2 == 0 there
        return 0.0
    return float(f"{x:.6g}")


# ------------------------------------------------------------------------------- vectors


@st.composite
def excitation_vec(draw, mag=None):
    pat = draw(st.sampled_from(["general", "general", "general", "x", "y", "z", "xy", "yz", "xz", "neg", "sum_zero"]))
    m = draw(logfloat(-2, 1)) if mag is None else mag
    if pat == "sum_zero":
        # components that cancel exactly (binary fractions): (a,-a,0), (a,a,-2a), (a/2,a/4,-3a/4) and permutations -
        # a vector like any other for the physics, a zero for code that tests a sum or product of components
        a = float(2.0 ** draw(st.integers(-6, 3))) * (m if mag is not None else 1.0)
        base = draw(st.sampled_from([(1.0, -1.0, 0.0), (1.0, 1.0, -2.0), (0.5, 0.25, -0.75), (-1.0, 0.0, 1.0), (0.0, 1.0, -1.0)]))
        perm = draw(st.permutations([0, 1, 2]))
        return [a * base[k] for k in perm]
    v = np.array([draw(ufloat(-1, 1)) for _ in range(3)])
    if np.linalg.norm(v) < 0.1:
        v = np.array([0.3, -0.5, 0.8])
    if pat in ("x", "y", "z"):
        k = "xyz".index(pat)
        w = np.zeros(3)
        w[k] = v[k] if abs(v[k]) > 0.05 else 1.0
        v = w
    elif pat in ("xy", "yz", "xz"):
        k = {"xy": 2, "yz": 0, "xz": 1}[pat]
        v[k] = 0.0
        if np.linalg.norm(v) < 0.05:
            v[(k + 1) % 3] = 1.0
    elif pat == "neg":
        v = -np.abs(v)
    v = v / np.linalg.norm(v) * m
    return [r6(x) for x in v]


@st.composite
def quaternion(draw, pool=True):
    """Unit quaternion (x,y,z,w) from the mixed pool of DESIGN.md section 3."""
    kind = draw(st.sampled_from(["haar"] * 6 + ["id", "id_neg", "ax90", "tiny", "near_pi"])) if pool else "haar"
    if kind == "id":
        return [0.0, 0.0, 0.0, 1.0]
    if kind == "id_neg":
        return [0.0, 0.0, 0.0, -1.0]
    if kind == "ax90":
        k = draw(st.integers(0, 2))
        n = draw(st.integers(1, 3))
        ang = n * math.pi / 2
        q = [0.0, 0.0, 0.0, math.cos(ang / 2)]
        q[k] = math.sin(ang / 2)
        return q
    v = np.array([draw(ufloat(-1, 1)) for _ in range(4)])
    if np.linalg.norm(v) < 0.1:
        v = np.array([0.5, -0.5, 0.5, 0.5])
    if kind == "haar":
        # (not exactly Haar from a cube, but covers SO(3) densely; exactness is irrelevant)
        q = v / np.linalg.norm(v)
        return [float(x) for x in q]
    ax = v[:3] / (np.linalg.norm(v[:3]) or 1.0)
    if np.linalg.norm(ax) == 0:
        ax = np.array([0.0, 0.0, 1.0])
    ang = 1e-8 if kind == "tiny" else math.pi - 1e-8
    q = np.concatenate([ax * math.sin(ang / 2), [math.cos(ang / 2)]])
    return [float(x) for x in q]


@st.composite
def pose_path(draw, max_len=1, extent=3.0, kinds=("static", "translate", "rotate")):
    """position path and orientation path (equal length 1..max_len)."""
    n = draw(st.integers(1, max_len))
    kind = "static" if n == 1 else draw(st.sampled_from([k for k in kinds if k != "static"] or ["static"]))
    pos = [[r6(draw(ufloat(-extent, extent))) for _ in range(3)] for _ in range(n)]
    q0 = draw(quaternion())
    if kind == "rotate" and n > 1 and draw(st.integers(0, 3)) == 0:
        # oscillation: +theta, -theta, +theta ... about one axis (quaternions that differ only in the signs of components)
        q = np.array(q0, dtype=float)
        ori = [list(q0) if i % 2 == 0 else [-q[0], -q[1], -q[2], q[3]] for i in range(n)]
    elif kind == "rotate" and n > 1:
        ori = [q0] + [draw(quaternion()) for _ in range(n - 1)]
    else:
        ori = [list(q0) for _ in range(n)]
        if kind == "translate" and n > 1 and draw(st.booleans()):
            # same rotation, flipped quaternion sign on some steps
            k = draw(st.integers(0, n - 1))
            ori[k] = [-x for x in ori[k]]
    return {"position": pos, "orientation": ori, "path_kind": kind}


# ------------------------------------------------------------------------------ geometry


@st.composite
def convex_points(draw, n_min=5, n_max=10, L=1.0):
    n = draw(st.integers(n_min, n_max))
    pts = [[r6(draw(ufloat(-0.5, 0.5)) * L) for _ in range(3)] for _ in range(n)]
    return pts


def _hull_mesh(pts):
    from scipy.spatial import ConvexHull  # pylint: disable=import-outside-toplevel

    P = np.asarray(pts, dtype=float)
    try:
        hull = ConvexHull(P)
    except Exception:  # pylint: disable=broad-except
        return None
    used = sorted(set(hull.simplices.ravel().tolist()))
    remap = {v: i for i, v in enumerate(used)}
    V = P[used]
    F = np.array([[remap[int(v)] for v in f] for f in hull.simplices])
    F = geom.orient_outward(V, F)
    ext = V.max(0) - V.min(0)
    if hull.volume < 1e-3 * np.max(ext) ** 3:
        return None
    # reject slivers: every face must have a decent area and every edge a decent length
    tri = V[F]
    area = 0.5 * np.linalg.norm(np.cross(tri[:, 1] - tri[:, 0], tri[:, 2] - tri[:, 0]), axis=1)
    if np.min(area) < 1e-4 * np.max(ext) ** 2:
        return None
    return V.tolist(), F.tolist()


BOX_FACES = None


def box_mesh(dim, center=(0, 0, 0)):
    a, b, c = (x / 2 for x in dim)
    V = np.array([[sx * a, sy * b, sz * c] for sx in (-1, 1) for sy in (-1, 1) for sz in (-1, 1)]) + np.asarray(center)
    F = geom._hull_faces(V)  # pylint: disable=protected-access
    return V.tolist(), F.tolist()


def prism_mesh(poly, h):
    """Prism over a simple polygon (counter-clockwise list of (x,y)), triangulated by
    ear clipping; outward orientation from the harness."""
    poly = [tuple(p) for p in poly]
    n = len(poly)
    tris2d = _earclip(poly)
    V = [[x, y, -h / 2] for x, y in poly] + [[x, y, h / 2] for x, y in poly]
    F = []
    for a, b, c in tris2d:
        F.append([a, c, b])  # bottom
        F.append([a + n, b + n, c + n])  # top
    for i in range(n):
        j = (i + 1) % n
        F.append([i, j, j + n])
        F.append([i, j + n, i + n])
    F = geom.orient_outward(np.array(V, dtype=float), F)
    return V, F.tolist()


def _earclip(poly):
    idx = list(range(len(poly)))

    def area2(a, b, c):
        return (b[0] - a[0]) * (c[1] - a[1]) - (b[1] - a[1]) * (c[0] - a[0])

    if sum(area2((0, 0), poly[i], poly[(i + 1) % len(poly)]) for i in range(len(poly))) < 0:
        idx.reverse()
    out = []
    guard = 0
    while len(idx) > 3 and guard < 10000:
        guard += 1
        n = len(idx)
        for k in range(n):
            i, j, l = idx[(k - 1) % n], idx[k], idx[(k + 1) % n]
            a, b, c = poly[i], poly[j], poly[l]
            if area2(a, b, c) <= 1e-14:
                continue
            ok = True
            for m in idx:
                if m in (i, j, l):
                    continue
                p = poly[m]
                if area2(a, b, p) >= -1e-14 and area2(b, c, p) >= -1e-14 and area2(c, a, p) >= -1e-14:
                    ok = False
                    break
            if ok:
                out.append((i, j, l))
                idx.pop(k)
                break
        else:
            break
    if len(idx) == 3:
        out.append(tuple(idx))
    return out


NONCONVEX_POLYS = {
    "L": [(0, 0), (1, 0), (1, 0.4), (0.4, 0.4), (0.4, 1), (0, 1)],
    "U": [(0, 0), (1, 0), (1, 1), (0.7, 1), (0.7, 0.35), (0.3, 0.35), (0.3, 1), (0, 1)],
    "T": [(0, 0.6), (0.35, 0.6), (0.35, 0), (0.65, 0), (0.65, 0.6), (1, 0.6), (1, 1), (0, 1)],
    "star": [(0.5, 0), (0.62, 0.35), (1, 0.38), (0.7, 0.6), (0.8, 1), (0.5, 0.77), (0.2, 1), (0.3, 0.6), (0, 0.38), (0.38, 0.35)],
}


@st.composite
def mesh_geometry(draw, L=1.0, kinds=("hull", "box", "prism", "nonconvex")):
    kind = draw(st.sampled_from(list(kinds)))
    if kind == "hull":
        for _ in range(4):
            m = _hull_mesh(draw(convex_points(L=L)))
            if m is not None:
                return {"vertices": m[0], "faces": m[1], "mesh_kind": "hull"}
        kind = "box"
    if kind == "box":
        dim = [r6(L * draw(logfloat(-0.7, 0.0))) for _ in range(3)]
        V, F = box_mesh(dim)
        return {"vertices": V, "faces": F, "mesh_kind": "box"}
    if kind == "prism":
        n = draw(st.integers(3, 7))
        angs = sorted(draw(st.lists(ufloat(0, 1), min_size=n, max_size=n, unique=True)))
        # spread angles so that no edge degenerates
        angs = [(k + 0.15 + 0.7 * a) / n * 2 * math.pi for k, a in enumerate(angs)]
        poly = [(r6(0.5 * L * math.cos(a)), r6(0.5 * L * math.sin(a))) for a in angs]
        V, F = prism_mesh(poly, r6(L * draw(logfloat(-0.7, 0.0))))
        return {"vertices": V, "faces": F, "mesh_kind": "prism"}
    name = draw(st.sampled_from(sorted(NONCONVEX_POLYS)))
    sx, sy = r6(L * draw(logfloat(-0.3, 0.0))), r6(L * draw(logfloat(-0.3, 0.0)))
    poly = [(r6((x - 0.5) * sx), r6((y - 0.5) * sy)) for x, y in NONCONVEX_POLYS[name]]
    V, F = prism_mesh(poly, r6(L * draw(logfloat(-0.7, -0.1))))
    return {"vertices": V, "faces": F, "mesh_kind": "nonconvex_" + name}


@st.composite
def tetra_vertices(draw, L=1.0):
    for _ in range(6):
        V = np.array([[r6(draw(ufloat(-0.5, 0.5)) * L) for _ in range(3)] for _ in range(4)])
        vol = abs(np.linalg.det(V[1:] - V[0])) / 6
        ext = np.max(V.max(0) - V.min(0))
        if ext > 0 and vol / ext**3 > 1e-3:
            tri_ok = True
            for f in ([0, 1, 2], [0, 1, 3], [0, 2, 3], [1, 2, 3]):
                a = 0.5 * np.linalg.norm(np.cross(V[f[1]] - V[f[0]], V[f[2]] - V[f[0]]))
                tri_ok &= a > 1e-3 * ext**2
            if tri_ok:
                return V.tolist()
    return [[0.0, 0.0, 0.0], [r6(L), 0.0, 0.0], [0.0, r6(0.8 * L), 0.0], [0.0, 0.0, r6(0.6 * L)]]


@st.composite
def triangle_vertices(draw, L=1.0):
    for _ in range(6):
        V = np.array([[r6(draw(ufloat(-0.5, 0.5)) * L) for _ in range(3)] for _ in range(3)])
        a = 0.5 * np.linalg.norm(np.cross(V[1] - V[0], V[2] - V[0]))
        ext = np.max(V.max(0) - V.min(0))
        if ext > 0 and a / ext**2 > 2e-2:
            return V.tolist()
    return [[0.0, 0.0, 0.0], [r6(L), 0.0, 0.0], [0.0, r6(0.8 * L), 0.0]]


@st.composite
def polyline_vertices(draw, L=1.0, closed=None, n_max=5):
    n = draw(st.integers(2, n_max))
    V = []
    for _ in range(n):
        for _try in range(5):
            p = [r6(draw(ufloat(-0.5, 0.5)) * L) for _ in range(3)]
            if all(np.linalg.norm(np.array(p) - np.array(q)) > 0.05 * L for q in V):
                break
        V.append(p)
    # consecutive vertices must differ (zero-length segments only where a property asks)
    out = [V[0]]
    for p in V[1:]:
        if np.linalg.norm(np.array(p) - np.array(out[-1])) > 0.02 * L:
            out.append(p)
    if len(out) < 2:
        out = [[0.0, 0.0, 0.0], [r6(L), 0.0, 0.0]]
    if closed is None:
        closed = draw(st.booleans())
    if closed and len(out) >= 3:
        out.append(list(out[0]))
    return out


@st.composite
def segment_dimension(draw, L=1.0):
    r2 = r6(0.5 * L * draw(logfloat(-0.6, 0.0)))
    r1 = 0.0 if draw(st.integers(0, 3)) == 0 else r6(r2 * draw(ufloat(0.02, 0.95)))
    h = r6(L * draw(logfloat(-1.0, 0.0)))
    wkind = draw(st.sampled_from(["any", "any", "any", "full", "small", "almost_full", "half"]))
    if wkind == "full":
        width = 360.0
    elif wkind == "small":
        width = r6(draw(ufloat(0.5, 10.0)))
    elif wkind == "almost_full":
        width = r6(360.0 - draw(logfloat(-3, 0.5)))
    elif wkind == "half":
        width = 180.0
    else:
        width = r6(draw(ufloat(5.0, 355.0)))
    phi1 = r6(draw(ufloat(-360.0, 360.0 - width)))
    if draw(st.integers(0, 4)) == 0:
        phi1 = float(draw(st.sampled_from([-360, -180, -90, 0, 90, 180])))
        phi1 = min(phi1, 360.0 - width)
    phi2 = r6(phi1 + width)
    if phi2 - phi1 > 360.0 or width == 360.0:
        phi2 = phi1 + 360.0
    if not phi2 > phi1:
        phi2 = phi1 + width
    return [r1, r2, h, phi1, phi2]


@st.composite
def source_spec(draw, classes=None, max_path=1, L=None, pos_extent=3.0, with_pose=True):
    cls = draw(st.sampled_from(list(classes or FIELD_CLASSES)))
    if L is None:
        # SI units: magnets of millimetre size given in metres are the ordinary case, not an extreme one
        L = draw(logfloat(-3, 1))
    L = r6(L)
    spec = {"cls": cls}
    if cls == "Cuboid":
        spec["dimension"] = [r6(L * draw(logfloat(-1.3, 0.0))) for _ in range(3)]
        k = draw(st.integers(0, 2))
        spec["dimension"][k] = L
    elif cls == "Cylinder":
        d, h = r6(L * draw(logfloat(-1.3, 0.0))), r6(L * draw(logfloat(-1.3, 0.0)))
        if draw(st.booleans()):
            d = L
        else:
            h = L
        spec["dimension"] = [d, h]
    elif cls == "CylinderSegment":
        spec["dimension"] = draw(segment_dimension(L=L))
    elif cls == "Sphere":
        spec["diameter"] = L
    elif cls == "Tetrahedron":
        spec["vertices"] = draw(tetra_vertices(L=L))
    elif cls == "TriangularMesh":
        spec.update(draw(mesh_geometry(L=L)))
    elif cls == "Triangle":
        spec["vertices"] = draw(triangle_vertices(L=L))
    elif cls == "Circle":
        spec["diameter"] = L
    elif cls == "Polyline":
        spec["vertices"] = draw(polyline_vertices(L=L))
    if cls == "CustomSource":
        # field function family: B(obs) = A @ obs + b (local frame), H = B/mu0, J = M = 0
        spec["func"] = {"A": [[r6(draw(ufloat(-1, 1))) for _ in range(3)] for _ in range(3)],
                        "b": [r6(draw(ufloat(-1, 1))) for _ in range(3)]}
    if cls in MAGNETS or cls == "Triangle":
        spec["polarization"] = draw(excitation_vec())
    elif cls in CURRENTS:
        c = draw(logfloat(-2, 2))
        spec["current"] = r6(c if draw(st.booleans()) else -c)
    elif cls == "Dipole":
        spec["moment"] = draw(excitation_vec())
    if with_pose:
        pp = draw(pose_path(max_len=max_path, extent=pos_extent * L))
    else:
        pp = {"position": [[0.0, 0.0, 0.0]], "orientation": [[0.0, 0.0, 0.0, 1.0]], "path_kind": "static"}
    spec.update(pp)
    return spec


@st.composite
def region_observers(draw, spec, n_min=1, n_max=6, regions=None, clear=1e-3, extra_regions=()):
    """List of {'region', 'local': [x,y,z]} built on the body of `spec`."""
    body = geom.body_from_spec(spec)
    if regions == "well_conditioned":
        # interface / algebra properties (C05, C07, ...) are not about formula accuracy: stay off the
        # lines and planes where the closed forms are documented to be noisy
        regions = [r for r in geom.regions_for(body) if r not in ("edge_extension", "near_axis", "axis_exact", "segment_plane")]
    avail = regions or (geom.regions_for(body) + list(extra_regions))
    n = draw(st.integers(n_min, n_max))
    out = []
    dropped = 0
    for _ in range(n):
        reg = draw(st.sampled_from(avail))
        u = draw(uniforms(8))
        p = geom.observer_in_region(body, reg, u, clear=clear)
        if p is None:
            dropped += 1
            p = geom.observer_in_region(body, "generic", u, clear=clear)
            reg = "generic"
            if p is None:
                continue
        out.append({"region": reg, "local": [float(x) for x in p]})
    if not out:
        p = np.array([1.7, 2.3, 2.9]) * body.L
        out.append({"region": "generic", "local": [float(x) for x in p]})
    return out


# ------------------------------------------------------------------------------- sensors


@st.composite
def pixel_array(draw, extent=0.2, shapes=None):
    shape = draw(st.sampled_from(shapes or [None, (3,), (1, 3), (2, 3), (3, 3), (2, 2, 3), (1, 1, 3), (2, 1, 3)]))
    if shape is None:
        return None
    n = int(np.prod(shape[:-1])) if len(shape) > 1 else 1
    flat = [[r6(draw(ufloat(-extent, extent))) for _ in range(3)] for _ in range(n)]
    arr = np.array(flat).reshape(shape)
    return arr.tolist()


@st.composite
def sensor_spec(draw, max_path=1, extent=3.0, pix_extent=0.2, shapes=None, kinds=("static", "translate", "rotate")):
    s = {"cls": "Sensor", "pixel": draw(pixel_array(extent=pix_extent, shapes=shapes)),
         "handedness": draw(st.sampled_from(["right", "right", "left"]))}
    s.update(draw(pose_path(max_len=max_path, extent=extent, kinds=kinds)))
    return s


@st.composite
def variant_of(draw, spec, max_path=4, pos_extent=1.0):
    """A second source of the same class that shares most numbers with `spec`: one axis of
    the vertices scaled / one dimension component changed, new pose, (often) new excitation.
    Sources that differ in few entries are what per-group caching and 'same as previous'
    shortcuts in vectorised code can confuse."""
    out = {k: (list(v) if isinstance(v, list) else v) for k, v in spec.items()}
    ax = draw(st.integers(0, 2))
    f = r6(draw(ufloat(0.5, 1.5)))
    if f == 1.0:
        f = 1.25
    if "vertices" in out and "faces" in out and draw(st.integers(0, 2)) == 0:
        # same first face(s), different body: one vertex that the first face does not use is pushed outwards
        V = np.array(out["vertices"], dtype=float)
        free = [i for i in range(len(V)) if i not in set(int(j) for j in out["faces"][0])]
        i = free[draw(st.integers(0, len(free) - 1))] if free else 0
        c = V.mean(axis=0)
        V[i] = c + (V[i] - c) * (1.0 + abs(f - 1.0) + 0.1)
        out["vertices"] = [[r6(x) for x in row] for row in V]
    elif "vertices" in out:
        V = np.array(out["vertices"], dtype=float)
        V[:, ax] = V[:, ax] * f
        out["vertices"] = [[r6(x) for x in row] for row in V]
    elif "dimension" in out:
        d = list(out["dimension"])
        k = draw(st.integers(0, min(2, len(d) - 1)))
        if spec["cls"] == "CylinderSegment" and k == 0:
            k = 2
        d[k] = r6(d[k] * f)
        if spec["cls"] == "CylinderSegment" and not d[0] < d[1]:
            d[1] = r6(d[0] * 1.5 + 0.1)
        out["dimension"] = d
    elif "diameter" in out:
        out["diameter"] = r6(out["diameter"] * f)
    elif "func" in out:
        out["func"] = {"A": out["func"]["A"], "b": [r6(x * f + 0.1) for x in out["func"]["b"]]}
    if draw(st.booleans()):
        if "polarization" in out:
            out["polarization"] = draw(excitation_vec())
        elif "moment" in out:
            out["moment"] = draw(excitation_vec())
        elif "current" in out:
            out["current"] = r6(draw(ufloat(-5, 5)) or 1.0)
    out.update(draw(pose_path(max_len=max_path, extent=pos_extent)))
    return out
