"""C10  Operations on a Collection keep every child's pose relative to it.

State machine over a generated tree (depth <= 3) whose members all share one path length.
After every collection-level operation the child-in-parent pose of every descendant must be
what it was (edge-padded / end-sliced like the paths themselves), everything outside the
operated subtree must be byte-identical, and the field the collection's own sensors see must
not change.
"""
from __future__ import annotations

import sys

import numpy as np
from hypothesis import strategies as st
from hypothesis.stateful import initialize, precondition, rule
from scipy.spatial.transform import Rotation as R

from vf import build, gen, machine, pathmodel, trees
from vf.core import Violation, exc_sig
from vf.props import c09

ID = "C10"
LEVEL = "exploration"
TECHNIQUE = "stateful property testing (Hypothesis RuleBasedStateMachine) with a relative-pose invariant over the history"
RULE = (
    "history = generated tree (depth<=3, 3-10 nodes: collections, sources, sensors; one shared path length 1-3) + "
    "1-20 operations: move / rotate / rotate_from_* (scalar and vector input, any anchor kind, any start), position=, "
    "orientation=, reset_path on a collection node, or on a single child. Path-lengthening inputs only at the root, "
    "non-lengthening forms elsewhere (rule preconditions keep all members at one path length, as the property "
    "quantifies). non-trivial = a collection-level step on a tree of depth>=2 with an explicit anchor or a non-default "
    "start, or >=2 collection-level steps in the history; distinct = canonical hash of the history"
)
ASSUMPTIONS = [
    "relative pose = (R_c^-1 (p_d - p_c), R_c^-1 R_d) per path index; old values edge-padded/end-sliced by the documented rule (vf/pathmodel.py)",
    "tolerance 1e-9 of the tree extent for positions, 1e-9 rad for orientations, 1e-9 relative for the own-sensor field",
]
CASE_TIMEOUT = 30
MAX_PATH = 24


def budget(tier):
    return {"examples": 1600 if tier == "quick" else 40000, "steps": 20}


# ----------------------------------------------------------------------------- state


class Node:
    def __init__(self, obj, spec, parent, depth):
        self.obj, self.spec, self.parent, self.depth = obj, spec, parent, depth
        self.children = []


class State:
    def __init__(self, init):
        self.nodes = []
        self.root = self._build(init, None, 0)
        self.coll_steps = 0
        self.nt = False
        self.height = max(n.depth for n in self.nodes)

    def _build(self, spec, parent, depth):
        if spec["cls"] == "Collection":
            obj = build.magpy.Collection()
        elif spec["cls"] == "Sensor":
            obj = build.build_sensor(spec)
        else:
            obj = build.build_source(spec)
        idx = len(self.nodes)
        node = Node(obj, spec, parent, depth)
        self.nodes.append(node)
        if spec["cls"] == "Collection":
            for ch in spec["children"]:
                ci = self._build(ch, idx, depth + 1)
                node.children.append(ci)
                obj.add(self.nodes[ci].obj)
            obj._position = np.asarray(spec["position"], dtype=float)  # pylint: disable=protected-access
            obj._orientation = R.from_quat(np.asarray(spec["orientation"], dtype=float))  # pylint: disable=protected-access
        return idx

    def descendants(self, i):
        out = []
        for c in self.nodes[i].children:
            out.append(c)
            out.extend(self.descendants(c))
        return out

    def plen(self, i=0):
        return len(self.nodes[i].obj._position)  # pylint: disable=protected-access

    def is_coll(self, i):
        return self.nodes[i].spec["cls"] == "Collection"


def new_state(init):
    return State(init)


def _pose(obj):
    return obj._position.copy(), obj._orientation.as_quat().copy()  # pylint: disable=protected-access


def _rel(pc, qc, pd, qd):
    Rc = R.from_quat(qc)
    return Rc.inv().apply(pd - pc), (Rc.inv() * R.from_quat(qd)).as_quat()


def _padmap(n_old, op, model_before):
    """index map: for each new path index, the old index whose relative pose it must carry"""
    m = model_before.copy()
    k = op["op"]
    if k == "move":
        pad = m.move(op["disp"], op["start"])
    elif k == "rotate":
        pad = m.rotate(pathmodel.rotation_from_form(op["form"]), op["anchor"], op["start"])
    elif k == "set_position":
        m.set_position(op["value"])
        pad = None
    elif k == "set_orientation":
        m.set_orientation(op["quat"])
        pad = None
    else:
        m.reset()
        pad = None
    n_new = len(m)
    if pad is not None:
        front, behind = pad
        idx = [0] * front + list(range(n_old)) + [n_old - 1] * behind
    else:
        if n_new >= n_old:
            idx = list(range(n_old)) + [n_old - 1] * (n_new - n_old)
        else:
            idx = list(range(n_old - n_new, n_old))
    assert len(idx) == n_new
    return idx, m


def _do_lib(obj, op):
    k = op["op"]
    if k == "move":
        return obj.move(op["disp"], start=op["start"])
    if k == "rotate":
        return c09._call_form(obj, op["form"], op["anchor"], op["start"])  # pylint: disable=protected-access
    if k == "set_position":
        obj.position = op["value"]
        return None
    if k == "set_orientation":
        obj.orientation = None if op["quat"] is None else R.from_quat(np.asarray(op["quat"], dtype=float))
        return None
    return obj.reset_path()


def _own_field(state, i):
    """B of collection i seen by its own sensors (None when it has not both kinds)"""
    coll = state.nodes[i].obj
    if not state.is_coll(i) or not coll.sources_all or not coll.sensors_all:
        return None
    r = build.call(coll.getB, squeeze=False)
    return np.asarray(r.value) if r.ok else None


def apply_op(state, op, ctx):
    out = []
    t = op["target"]
    node = state.nodes[t]
    obj = node.obj
    kind = op["op"] + (":" + op["form"]["kind"] if "form" in op else "")
    level = "collection" if state.is_coll(t) else "leaf"
    ctx.label(f"op:{level}:{kind}")
    before = [_pose(n.obj) for n in state.nodes]
    sub = state.descendants(t)
    field_before = _own_field(state, t) if op.get("check_field") else None
    root_field_before = _own_field(state, 0) if (op.get("check_field") and t != 0 and node.parent is not None) else None
    model = pathmodel.PathModel(*before[t])
    idx, model_after = _padmap(len(before[t][0]), op, model)

    r = build.call(_do_lib, obj, op)
    if not r.ok:
        return [Violation({"sub": "valid_call_raised", "op": kind, "level": level, **exc_sig(r.exc)},
                          f"{op}: {type(r.exc).__name__}: {str(r.exc)[:200]}")]
    after = [_pose(n.obj) for n in state.nodes]
    ext = max(1.0, max(float(np.max(np.abs(p))) for p, _ in after))
    sig_common = {"op": kind, "level": level, "anchor": c09._anchor_kind(op), "start_kind": c09._start_kind(op)}  # pylint: disable=protected-access

    # the operated object itself follows the single-object model (C09's subject, cheap to re-check)
    pt, qt = after[t]
    if len(pt) != len(model_after) or not np.allclose(pt, model_after.pos, atol=1e-9 * ext, rtol=0) or \
            float(np.max((R.from_quat(qt) * model_after.rot.inv()).magnitude())) > 1e-9:
        out.append(Violation({"sub": "target_path", **sig_common}, f"operated {level} does not follow the path model after {op}"))

    # descendants keep their pose relative to the operated collection
    for d in sub:
        pd0, qd0 = before[d]
        pd1, qd1 = after[d]
        if len(pd1) != len(pt):
            out.append(Violation({"sub": "descendant_path_length", **sig_common, "rel_depth": state.nodes[d].depth - node.depth},
                                 f"descendant path length {len(pd1)} vs collection {len(pt)} after {op}"))
            break
        rp0, rq0 = _rel(before[t][0], before[t][1], pd0, qd0)
        rp1, rq1 = _rel(pt, qt, pd1, qd1)
        exp_p, exp_q = rp0[idx], rq0[idx]
        dp = float(np.max(np.abs(rp1 - exp_p)))
        da = float(np.max((R.from_quat(rq1) * R.from_quat(exp_q).inv()).magnitude()))
        if dp > 1e-9 * ext or da > 1e-9:
            out.append(Violation({"sub": "relative_pose_changed", **sig_common, "rel_depth": state.nodes[d].depth - node.depth,
                                  "what": "position" if dp > 1e-9 * ext else "orientation"},
                                 f"descendant (depth +{state.nodes[d].depth - node.depth}, {state.nodes[d].spec['cls']}) moved relative to the operated "
                                 f"collection: |d rel pos|={dp:.3g}, d rel angle={da:.3g} rad after {op}"))
            break
    # everything else is untouched
    keep = set(range(len(state.nodes))) - {t} - set(sub)
    for i in keep:
        if before[i][0].tobytes() != after[i][0].tobytes() or before[i][1].tobytes() != after[i][1].tobytes():
            out.append(Violation({"sub": "outside_subtree_changed", **sig_common},
                                 f"node {i} ({state.nodes[i].spec['cls']}) outside the operated subtree changed after {op}"))
            break
    # the collection's own sensors see the same field
    if field_before is not None and not out:
        fa = _own_field(state, t)
        if fa is not None:
            if fa.shape[1] == len(idx) and field_before.shape[1] == len(before[t][0]):
                exp = field_before[:, idx]
                sc = max(float(np.max(np.abs(exp))), 1e-300)
                dev = float(np.max(np.abs(fa - exp))) / sc
                if dev > 1e-8:
                    out.append(Violation({"sub": "own_sensor_field_changed", **sig_common},
                                         f"field of the collection seen by its own sensor changed by {dev:.3g} (relative) after {op}"))
                ctx.label("own_field_compared")
    if state.is_coll(t):
        state.coll_steps += 1
        if state.height >= 2 and (c09._anchor_kind(op) not in ("none",) or op.get("start", "auto") != "auto"):  # pylint: disable=protected-access
            state.nt = True
            ctx.label("nt:deep_tree_explicit_anchor_or_start")
        if state.coll_steps >= 2:
            state.nt = True
    return out


def finish(state, init, ops, ctx):
    case = {"init": init, "ops": ops}
    ctx.label(f"tree_height:{state.height}")
    if state.nt:
        ctx.mark_nontrivial(case)
        ctx.sample(case, nontrivial=True)
    else:
        ctx.sample(case)


def run_case(case, ctx):
    return machine.replay_history(sys.modules[__name__], case, ctx)


# ----------------------------------------------------------------------------- machine


@st.composite
def _tree(draw, n_path):
    def pose():
        pp = draw(gen.pose_path(max_len=1, extent=2.0))
        pos = [[gen.r6(draw(gen.ufloat(-2, 2))) for _ in range(3)] for _ in range(n_path)]
        kind = draw(st.sampled_from(["same", "rot"]))
        ori = [pp["orientation"][0]] * n_path if kind == "same" else [draw(gen.quaternion()) for _ in range(n_path)]
        return {"position": pos, "orientation": ori}

    budget_nodes = [draw(st.integers(3, 10))]

    def coll(depth):
        budget_nodes[0] -= 1
        children = []
        n = draw(st.integers(1, 3))
        for _ in range(n):
            if budget_nodes[0] <= 0:
                break
            k = draw(st.sampled_from(["leaf", "leaf", "sensor", "coll", "coll"]))
            if k == "coll" and depth < 3:
                children.append(coll(depth + 1))
            elif k == "sensor":
                budget_nodes[0] -= 1
                children.append({"cls": "Sensor", "pixel": None, "handedness": "right", **pose()})
            else:
                budget_nodes[0] -= 1
                s = draw(gen.source_spec(classes=["Cuboid", "Sphere", "Dipole", "Circle", "Cylinder"], max_path=1, L=0.5))
                s.update(pose())
                children.append(s)
        if not children:
            s = draw(gen.source_spec(classes=["Cuboid"], max_path=1, L=0.5))
            s.update(pose())
            children.append(s)
        return {"cls": "Collection", "children": children, **pose()}

    return coll(1)


class TreeMachine(machine.VMachine):
    @initialize(data=st.data())
    def setup(self, data):
        n_path = data.draw(st.integers(1, 3))
        self.start(data.draw(_tree(n_path)))

    def _ok(self):
        return self.state is not None and self.state.plen() <= MAX_PATH

    def _target(self, data, want_coll):
        st_ = self.state
        cands = [i for i in range(len(st_.nodes)) if st_.is_coll(i) == want_coll] or [0]
        return cands[data.draw(st.integers(0, len(cands) - 1))]

    def _nonlengthening_start(self, data, n_in, n):
        """a start value with which an input of length n_in (0 = scalar) stays inside a path of length n"""
        if n_in == 0:
            return data.draw(st.sampled_from(["auto"] + list(range(-n, n))))
        if n_in > n:
            return None
        lo, hi = -n, n - n_in
        cands = [s for s in range(lo, hi + 1) if (s if s >= 0 else n + s) + n_in <= n]
        return data.draw(st.sampled_from(cands)) if cands else None

    @precondition(lambda self: self._ok())
    @rule(data=st.data(), coll=st.booleans(), n=st.sampled_from([0, 0, 1, 2, 3]), check_field=st.booleans())
    def move(self, data, coll, n, check_field):
        t = self._target(data, coll)
        if t == 0:
            start = data.draw(c09._start)  # pylint: disable=protected-access
        else:
            start = self._nonlengthening_start(data, n, self.state.plen())
            if start is None:
                n, start = 0, "auto"
        disp = data.draw(c09._vec3) if n == 0 else [data.draw(c09._vec3) for _ in range(n)]  # pylint: disable=protected-access
        self.do({"target": t, "op": "move", "disp": disp, "start": start, "check_field": check_field})

    @precondition(lambda self: self._ok())
    @rule(data=st.data(), coll=st.sampled_from([True, True, False]), fr=c09._rot_form(), check_field=st.booleans())  # pylint: disable=protected-access
    def rotate(self, data, coll, fr, check_field):
        form, n = fr
        t = self._target(data, coll)
        scalar = _is_scalar_form(form)
        anchor = data.draw(c09._anchor(n))  # pylint: disable=protected-access
        n_in = 0 if scalar else n
        if anchor is not None and not np.isscalar(anchor) and np.ndim(anchor) == 2:
            n_in = max(n, len(anchor))
        if t == 0:
            start = data.draw(c09._start)  # pylint: disable=protected-access
        else:
            start = self._nonlengthening_start(data, n_in, self.state.plen())
            if start is None:
                # fall back to a scalar rotation with a scalar anchor
                form = {"kind": "rotvec", "rotvec": [0.3, -0.2, 0.5], "degrees": False}
                anchor = anchor if (anchor is None or np.isscalar(anchor) or np.ndim(anchor) == 1) else anchor[0]
                start = "auto"
        self.do({"target": t, "op": "rotate", "form": form, "anchor": anchor, "start": start, "check_field": check_field})

    @rule(data=st.data(), coll=st.sampled_from([True, True, False]), check_field=st.booleans())
    def set_position(self, data, coll, check_field):
        t = self._target(data, coll)
        n = self.state.plen()
        m = data.draw(st.integers(1, 4)) if t == 0 else n
        v = [data.draw(c09._vec3) for _ in range(m)]  # pylint: disable=protected-access
        if m == 1 and data.draw(st.booleans()):
            v = v[0]
        self.do({"target": t, "op": "set_position", "value": v, "check_field": check_field})

    @rule(data=st.data(), coll=st.sampled_from([True, True, False]), check_field=st.booleans())
    def set_orientation(self, data, coll, check_field):
        t = self._target(data, coll)
        n = self.state.plen()
        m = data.draw(st.integers(0, 4)) if t == 0 else n
        if m == 0:
            q = None
        else:
            q = [data.draw(gen.quaternion()) for _ in range(m)]
            if m == 1 and data.draw(st.booleans()):
                q = q[0]
        if q is None and t != 0 and n != 1:
            q = [[0.0, 0.0, 0.0, 1.0]] * n
        self.do({"target": t, "op": "set_orientation", "quat": q, "check_field": check_field})

    @precondition(lambda self: self.state is not None and self.state.plen() == 1)
    @rule(data=st.data(), coll=st.booleans())
    def reset_path(self, data, coll):
        self.do({"target": self._target(data, coll), "op": "reset_path", "check_field": True})

    @rule()
    def reset_root(self):
        self.do({"target": 0, "op": "reset_path", "check_field": True})


def _is_scalar_form(form):
    k = form["kind"]
    key = {"rotate": "quat", "quat": "quat", "angax": "angle", "rotvec": "rotvec", "euler": "angle", "matrix": "matrix", "mrp": "mrp"}[k]
    v = form[key]
    if v is None:
        return True
    nd = np.ndim(v)
    if k in ("rotate", "quat", "rotvec", "mrp"):
        return nd == 1
    if k == "angax":
        return nd == 0
    if k == "matrix":
        return nd == 2
    if k == "euler":
        return nd == 0 if len(form["seq"]) == 1 else nd == 1
    return True


def make_machine(tier, sess):
    return machine.bind(TreeMachine, sys.modules[__name__], sess)
