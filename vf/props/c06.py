"""C06  Each output element depends only on its own source, path index and observer.

Differential oracle: the vectorised call getX(sources, sensors, squeeze=False) against
element-by-element evaluation (static copy of source l at pose min(m, len-1), static copy of
sensor k with that single pixel), plus squeeze and permutation relations.
"""
from __future__ import annotations

import numpy as np
from hypothesis import strategies as st

from vf import build, gen, geom
from vf import core
from vf.core import Violation, exc_sig

ID = "C06"
LEVEL = "exploration"
TECHNIQUE = "property-based differential testing: vectorised batch call vs element-by-element evaluation (Hypothesis)"
RULE = (
    "case = 1-5 sources (classes mixed; with set probability several sources of one class with different "
    "or identical vertex/face counts), per-object path lengths 1-4, 1-3 sensors sharing a pixel shape with "
    "pixel counts drawn from {1,2,3,5,9,10,11,14,15,16}, sensor positions constructed inside / on / near the "
    "bodies of the sources, all four fields. non-trivial = two sources of one class with different vertex/face "
    "counts, or a row count of some class group within +-2 of 10 or 15, or an observer inside one body and "
    "outside another of the same class, or an observer exactly on a surface, or unequal path lengths; "
    "distinct = canonical hash of the case"
)
ASSUMPTIONS = [
    "element-by-element reference uses the library itself in its smallest batch (one source, one pixel, one step)",
    "tolerance 1e-9 of max(|element|, source field scale)",
    "observers closer than 1e-6 L to a surface are only generated with identity poses (bit-identical local coordinates)",
]

CLASSES = gen.ALL_SOURCES
TOL = 1e-9


def budget(tier):
    return {"examples": 4000 if tier == "quick" else 80000}


@st.composite
def _sources(draw):
    mode = draw(st.sampled_from(["mixed", "mixed", "same_class", "same_class_diffcount", "identical"]))
    n = draw(st.integers(1, 5))
    L = 1.0
    out = []
    if mode == "mixed":
        for _ in range(n):
            out.append(draw(gen.source_spec(classes=CLASSES, max_path=4, L=L, pos_extent=1.0)))
    else:
        cls = draw(st.sampled_from(["TriangularMesh", "TriangularMesh", "Polyline", "Tetrahedron", "Cuboid", "CylinderSegment", "Cylinder", "Triangle", "CustomSource"]))
        first = draw(gen.source_spec(classes=[cls], max_path=4, L=L, pos_extent=1.0))
        out.append(first)
        for _ in range(max(1, n - 1)):
            if mode == "identical":
                s = dict(first)
                s.update(draw(gen.pose_path(max_len=4, extent=1.0)))
                if "polarization" in s and draw(st.booleans()):
                    s["polarization"] = draw(gen.excitation_vec())
                out.append(s)
            elif mode == "same_class" and draw(st.booleans()):
                out.append(draw(gen.variant_of(first)))
            else:
                out.append(draw(gen.source_spec(classes=[cls], max_path=4, L=L, pos_extent=1.0)))
        if draw(st.booleans()):
            out.append(draw(gen.source_spec(classes=CLASSES, max_path=4, L=L, pos_extent=1.0)))
    if draw(st.integers(0, 2)) == 0:
        # identity orientations everywhere: local coordinates of an observer are then computed
        # by the same exact arithmetic in batch and single evaluation, so observers exactly
        # on a surface are meaningful
        for s in out:
            s["orientation"] = [[0.0, 0.0, 0.0, 1.0] for _ in s["orientation"]]
            s["path_kind"] = "translate" if len(s["position"]) > 1 else "static"
    if draw(st.integers(0, 5)) == 0 and len(out) > 1:
        # duplicate entry (the same object twice in the list)
        out.append({"dup_of": draw(st.integers(0, len(out) - 1))})
    return out


@st.composite
def case_strategy(draw):
    sources = draw(_sources())
    real = [s for s in sources if "dup_of" not in s]
    nsens = draw(st.integers(1, 3))
    npix = draw(st.sampled_from([0, 1, 1, 2, 3, 5, 9, 10, 11, 14, 15, 16]))
    pixshape = draw(st.sampled_from(["flat", "grid"])) if npix in (2, 10, 14, 16) else "flat"
    sensors = []
    exact_ok = True
    for _ in range(nsens):
        plen = draw(st.integers(1, 4))
        anchor_src = draw(st.integers(0, len(real) - 1))
        spec = real[anchor_src]
        body = geom.body_from_spec(spec)
        okind = draw(st.sampled_from(["identity", "identity", "static", "rotate"]))
        # sensor position path: points built on the body of one of the sources
        pos = []
        regs = []
        for m in range(plen):
            reg = draw(st.sampled_from(["inside", "inside", "on_surface", "near_in", "near_out", "generic", "near_edge"]))
            u = draw(gen.uniforms(8))
            q_src = spec["orientation"][min(m, len(spec["orientation"]) - 1)]
            exact = okind == "identity" and list(q_src) == [0.0, 0.0, 0.0, 1.0] and body.kind == "magnet"
            if reg == "on_surface" and not exact:
                reg = "near_out"  # on-surface only where batch and single see bit-identical local coordinates
            if reg == "on_surface":
                S, _n, _ = body.surface_point(u)
                p = S
            else:
                p = geom.observer_in_region(body, reg if reg in geom.regions_for(body) else "generic", u, clear=1e-6)
                if p is None:
                    p = geom.observer_in_region(body, "generic", u, clear=1e-6)
                    reg = "generic"
                if p is None:
                    p = np.array([1.3, 0.7, -0.9])
            regs.append(reg)
            pos.append([float(x) for x in build.to_global(spec, p, m)])
        if okind == "identity":
            ori = [[0.0, 0.0, 0.0, 1.0]] * plen
        elif okind == "static":
            q = draw(gen.quaternion())
            ori = [q] * plen
        else:
            ori = [draw(gen.quaternion()) for _ in range(plen)]
        sensors.append({"cls": "Sensor", "position": pos, "orientation": ori, "regions": regs,
                        "handedness": draw(st.sampled_from(["right", "right", "left"])), "anchor": anchor_src})
    if npix == 0:
        pixel = None
    else:
        pix = [[0.0, 0.0, 0.0]] + [[gen.r6(draw(gen.ufloat(-0.3, 0.3))) for _ in range(3)] for _ in range(npix - 1)]
        if pixshape == "grid" and npix % 2 == 0:
            pixel = np.array(pix).reshape(2, npix // 2, 3).tolist()
        elif npix == 1 and draw(st.booleans()):
            pixel = pix[0]
        else:
            pixel = pix
    for s in sensors:
        s["pixel"] = pixel
    ne = 24
    return {
        "sources": sources,
        "sensors": sensors,
        "field": draw(st.sampled_from(["B", "B", "H", "J", "M"])),
        "probe": draw(gen.uniforms(ne)),
        "perm_seed": draw(gen.uniforms(6)),
        "in_out": "auto",
    }


def strategy(tier):
    return case_strategy()


# --------------------------------------------------------------------------------------


def _resolve_sources(case):
    specs = []
    for s in case["sources"]:
        if "dup_of" in s:
            specs.append(("dup", s["dup_of"]))
        else:
            specs.append(("new", s))
    return specs


def _nontrivial(case, ctx, real_specs, lens):
    nt = False
    by_cls = {}
    for s in real_specs:
        by_cls.setdefault(s["cls"], []).append(s)
    for cls, lst in by_cls.items():
        if len(lst) > 1:
            counts = set()
            for s in lst:
                if cls == "TriangularMesh":
                    counts.add(len(s["faces"]))
                elif cls == "Polyline":
                    counts.add(len(s["vertices"]))
                else:
                    counts.add(0)
            if len(counts) > 1:
                ctx.label("nt:same_class_different_counts")
                nt = True
            else:
                ctx.label("same_class_equal_counts")
    if len(set(lens)) > 1:
        ctx.label("nt:unequal_path_lengths")
        nt = True
    return nt


def run_case(case, ctx):
    magpy = build.magpy
    field = case["field"]
    fn = getattr(magpy, "get" + field)
    specs = _resolve_sources(case)
    real_specs = [s for k, s in specs if k == "new"]
    objs = []
    spec_of = []
    for kind, s in specs:
        if kind == "new":
            objs.append(build.build_source(s))
            spec_of.append(s)
        else:
            j = s % len(objs)
            objs.append(objs[j])
            spec_of.append(spec_of[j])
    sensors = [build.build_sensor(s) for s in case["sensors"]]
    lens = [len(s["position"]) for s in spec_of] + [len(s["position"]) for s in case["sensors"]]
    M = max(lens)

    res = build.call(fn, objs, sensors, squeeze=False)
    ctx.label(f"field:{field}")
    for s in real_specs:
        ctx.label(f"class:{s['cls']}")
    if not res.ok:
        return [Violation({"sub": "batch_call_raised", **exc_sig(res.exc)}, repr(res.exc)[:300])]
    full = np.asarray(res.value)
    pixel = case["sensors"][0]["pixel"]
    # library convention (check_format_input_observers): a sensor without pixel or with a
    # single (3,) pixel contributes pixel shape (1,)
    pixshape = (1,) if (pixel is None or np.asarray(pixel).shape == (3,)) else tuple(np.asarray(pixel).shape[:-1])
    exp_shape = (len(objs), M, len(sensors)) + pixshape + (3,)
    out = []
    if full.shape != exp_shape:
        return [Violation({"sub": "shape", "field": field}, f"shape {full.shape}, documented {exp_shape}")]

    nt = _nontrivial(case, ctx, real_specs, lens)
    npixtot = int(np.prod(pixshape)) if pixshape else 1
    # rows per class group, to see the algorithm switches at 10 and 15
    rows = {}
    for s in spec_of:
        rows[s["cls"]] = rows.get(s["cls"], 0) + M * npixtot * len(sensors)
    for cls, r in rows.items():
        if any(abs(r - k) <= 2 for k in (10, 15)):
            ctx.label("nt:rows_near_switch")
            nt = True
    if any("on_surface" in s["regions"] for s in case["sensors"]):
        ctx.label("nt:on_surface_observer")
        nt = True

    flat = full.reshape(len(objs), M, len(sensors), npixtot, 3)
    pix_flat = np.zeros((1, 3)) if pixel is None else np.asarray(pixel, dtype=float).reshape(-1, 3)
    total = len(objs) * M * len(sensors) * npixtot
    if total <= 40:
        idxs = list(range(total))
    else:
        idxs = sorted({min(int(u * total), total - 1) for u in case["probe"]} | {0, total - 1})
    inside_flags = {}
    for idx in idxs:
        l, rem = divmod(idx, M * len(sensors) * npixtot)
        m, rem = divmod(rem, len(sensors) * npixtot)
        k, p = divmod(rem, npixtot)
        sspec = spec_of[l]
        src1 = build.build_source(build.static_copy_spec(sspec, m))
        ks = case["sensors"][k]
        st_spec = build.static_copy_spec(ks, m)
        st_spec = dict(st_spec)
        st_spec["pixel"] = [float(x) for x in pix_flat[p]] if pixel is not None else None
        sens1 = build.build_sensor(st_spec)
        r1 = build.call(fn, src1, sens1, squeeze=True)
        if not r1.ok:
            out.append(Violation({"sub": "single_call_raised", "cls": sspec["cls"], **exc_sig(r1.exc)}, repr(r1.exc)[:300]))
            break
        single = np.asarray(r1.value).reshape(3)
        batch = flat[l, m, k, p]
        scale = max(float(np.max(np.abs(single))) if np.all(np.isfinite(single)) else 0.0,
                    build.field_scale(sspec) * (1.0 if field in "BJ" else 1.0 / magpy.mu_0) * 1e-3)
        both_nan = np.isnan(single) & np.isnan(batch)
        diff = np.where(both_nan, 0.0, np.abs(single - batch))
        same_inf = np.isinf(single) & (single == batch)
        diff = np.where(same_inf, 0.0, diff)
        # inside/outside bookkeeping for the non-trivial rule
        if sspec["cls"] in gen.MAGNETS:
            body = geom.body_from_spec(sspec)
            gp = build.to_global(ks, pix_flat[p], m) if pixel is not None else np.asarray(ks["position"][min(m, len(ks["position"]) - 1)])
            lp = build.to_local(sspec, gp, m)
            inside_flags.setdefault(sspec["cls"], set()).add(bool(body.inside(lp[None])[0]))
        if not np.all(diff <= TOL * scale) and np.all(np.isfinite(diff)):
            # condition-aware allowance: batch and single evaluation may see observer coordinates that
            # differ by rounding (quaternion re-normalisation).  What a few-ulp displacement of the
            # observer does to the single evaluation is therefore not a batch dependence.  Not applied
            # to observers constructed exactly on a surface (identity poses, bit-identical coordinates).
            gp0 = build.to_global(ks, pix_flat[p], m) if pixel is not None else np.asarray(ks["position"][min(m, len(ks["position"]) - 1)], dtype=float)
            body0 = geom.body_from_spec(sspec)
            lp0 = build.to_local(sspec, gp0, m)
            if float(body0.dist(lp0[None])[0]) >= 1e-7 * body0.L:
                spread = 0.0
                mag = max(float(np.max(np.abs(gp0))), float(np.max(np.abs(lp0))), 1e-300)
                for ax in range(3):
                    for sg in core.NOISE_STEPS:
                        dp = np.zeros(3)
                        dp[ax] = sg * mag
                        rp = build.call(fn, src1, gp0 + dp, squeeze=True)
                        if rp.ok:
                            base = build.call(fn, src1, gp0, squeeze=True).value
                            spread = max(spread, float(np.max(np.abs(np.asarray(rp.value) - np.asarray(base)))))
                if np.all(diff <= TOL * scale + 20.0 * spread):
                    ctx.label("illconditioned_element_tolerated")
                    continue
        if not np.all(diff <= TOL * scale):
            err = float(np.nanmax(diff) / scale) if np.all(np.isfinite(diff)) else float("inf")
            sig = {"sub": "element_differs", "cls": sspec["cls"], "field": field,
                   "magnitude": "O(1)" if not err < 1e-3 else "small"}
            mini = {"sources": case["sources"], "sensors": case["sensors"], "field": field, "probe": [idx / total + 0.5 / total],
                    "perm_seed": case["perm_seed"], "in_out": "auto"}
            out.append(Violation(sig, f"element (l={l},m={m},k={k},pix={p}) batch={batch.tolist()} single={single.tolist()} "
                                      f"rel.err={err:.3g}; classes in call: {[s['cls'] for s in spec_of]}", case=mini))
            break
    for cls, fl in inside_flags.items():
        if len(fl) == 2:
            ctx.label("nt:inside_one_outside_other")
            nt = True

    # squeeze=True only removes length-1 axes
    r2 = build.call(fn, objs, sensors, squeeze=True)
    if r2.ok:
        sq = np.asarray(r2.value)
        if sq.shape != np.squeeze(full).shape or not np.array_equal(sq, np.squeeze(full), equal_nan=True):
            out.append(Violation({"sub": "squeeze", "field": field}, f"squeeze=True shape {sq.shape} vs np.squeeze(full) {np.squeeze(full).shape}"))
    else:
        out.append(Violation({"sub": "squeeze_raised", **exc_sig(r2.exc)}, repr(r2.exc)[:200]))

    # permutation of sources and of sensors permutes the result
    perm_s = _perm(len(objs), case["perm_seed"][:3])
    perm_k = _perm(len(sensors), case["perm_seed"][3:])
    r3 = build.call(fn, [objs[i] for i in perm_s], [sensors[i] for i in perm_k], squeeze=False)
    if r3.ok:
        pf = np.asarray(r3.value)
        ref = full[perm_s][:, :, perm_k]
        sc = np.maximum(np.abs(ref), np.nanmax(np.abs(ref[np.isfinite(ref)])) * 1e-6 if np.any(np.isfinite(ref)) else 1.0)
        with np.errstate(invalid="ignore"):
            bad = ~(np.abs(pf - ref) <= TOL * sc) & ~(np.isnan(pf) & np.isnan(ref)) & ~(pf == ref)
        if np.any(bad):
            l_bad = int(np.argwhere(bad)[0][0])
            out.append(Violation({"sub": "permutation", "field": field, "cls": spec_of[perm_s[l_bad]]["cls"]},
                                 f"result changes when sources are reordered {perm_s} / sensors {perm_k}: "
                                 f"max abs diff {float(np.nanmax(np.abs(pf - ref)))}"))
    else:
        out.append(Violation({"sub": "permuted_call_raised", **exc_sig(r3.exc)}, repr(r3.exc)[:200]))

    if nt:
        ctx.mark_nontrivial(case)
        ctx.sample(case, nontrivial=True)
    else:
        ctx.sample(case)
    return out


def _perm(n, us):
    idx = list(range(n))
    out = []
    for i, u in enumerate(list(us) + [0.5] * n):
        if not idx:
            break
        out.append(idx.pop(min(int(u * len(idx)), len(idx) - 1)))
    return out + idx
