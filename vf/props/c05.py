"""C05  Superposition (collections, sumup) and linearity in the excitation.

Differential oracle: entry i of getX(items, observers) equals the explicit sum of the
single-source results of the leaf sources of item i (edge-padded along the path axis);
algebraic laws F(a*x) = a*F(x) and F(x1+x2) = F(x1)+F(x2).
"""
from __future__ import annotations

import numpy as np
from hypothesis import strategies as st

from vf import build, gen, geom, trees
from vf import core
from vf.core import Violation, exc_sig

ID = "C05"
LEVEL = "exploration"
TECHNIQUE = "property-based differential testing (explicit sums of single-source calls) and algebraic laws (Hypothesis)"
RULE = (
    "two case kinds. 'sum': 1-5 items, each a bare source or a nested Collection (depth<=3, sensors mixed in), "
    "any order, bare duplicates, per-object path lengths 1-4, observers = sensors and/or position arrays built "
    "inside/near the bodies, sumup on/off, fields B,H,J,M. 'linear': one source, factor a in "
    "{+-2^k (|k|<=40), 0, generic} and a second excitation vector. non-trivial (sum) = at least two collections "
    "with different leaf counts, or a collection followed by a bare source, or nesting depth >= 2; "
    "non-trivial (linear) = observer inside the body or |k| >= 10 or two-vector additivity; distinct = canonical hash"
)
ASSUMPTIONS = [
    "single-source reference values come from the library itself (one source per call)",
    "tolerance 1e-9 of the sum of single magnitudes for sums; 1e-12 for power-of-two scaling; 1e-10 for additivity",
]

CLASSES = gen.ALL_SOURCES


def budget(tier):
    return {"examples": 3000 if tier == "quick" else 100000}


_leaf = gen.source_spec(classes=CLASSES, max_path=4, L=1.0, pos_extent=1.0)
_sens_in_coll = gen.sensor_spec(max_path=3)


@st.composite
def _observers(draw, real_leaves):
    """sensors / arrays whose positions lie inside or near some of the bodies"""
    n = draw(st.integers(1, 3))
    obs = []
    for _ in range(n):
        anchor = real_leaves[draw(st.integers(0, len(real_leaves) - 1))]
        body = geom.body_from_spec(anchor)
        plen = draw(st.integers(1, 4))
        pos = []
        for m in range(plen):
            reg = draw(st.sampled_from(["inside", "near_in", "near_out", "generic", "far"]))
            p = geom.observer_in_region(body, reg if reg in geom.regions_for(body) else "generic", draw(gen.uniforms(8)), clear=1e-3)
            if p is None:
                p = np.array([1.1, -0.8, 1.4])
            pos.append([float(x) for x in build.to_global(anchor, p, m)])
        kind = draw(st.sampled_from(["sensor", "sensor", "array"]))
        if kind == "array":
            obs.append({"cls": "array", "value": pos[0]})
        else:
            ori = [draw(gen.quaternion())] * plen if draw(st.booleans()) else [draw(gen.quaternion()) for _ in range(plen)]
            obs.append({"cls": "Sensor", "position": pos, "orientation": ori,
                        "pixel": draw(st.sampled_from([None, [0.0, 0.0, 0.0], [[0.0, 0.0, 0.0], [0.01, 0.02, -0.01]]])),
                        "handedness": "right"})
    # all observers must share one pixel shape (no pixel_agg in this property)
    shapes = {str(np.shape(o["pixel"])) if o["cls"] == "Sensor" and o["pixel"] is not None and np.ndim(o["pixel"]) > 1 else "(1,3)" for o in obs}
    if len(shapes) > 1:
        for o in obs:
            if o["cls"] == "Sensor":
                o["pixel"] = None
    return obs


@st.composite
def sum_case(draw):
    n = draw(st.integers(1, 5))
    items = []
    leaf = _leaf
    if draw(st.integers(0, 2)) == 0:
        # family mode: all leaves are variants of one source (same class, most numbers shared)
        base = draw(gen.source_spec(classes=["TriangularMesh", "TriangularMesh", "Polyline", "Tetrahedron", "Cuboid",
                                             "CylinderSegment", "Triangle", "Cylinder", "CustomSource"], max_path=4, L=1.0, pos_extent=1.0))
        if base["cls"] == "TriangularMesh" and draw(st.booleans()):
            base.update(draw(gen.mesh_geometry(L=1.0, kinds=("box",))))
        leaf = st.one_of(gen.variant_of(base), gen.variant_of(base), st.just(base).flatmap(lambda b: gen.pose_path(max_len=4, extent=1.0).map(lambda pp: {**b, **pp})))
    for _ in range(n):
        k = draw(st.sampled_from(["leaf", "leaf", "coll", "coll"]))
        if k == "coll":
            items.append(draw(trees.collection_spec(leaf, max_depth=3, max_children=3, sensor=_sens_in_coll)))
        else:
            items.append(draw(leaf))
    if draw(st.integers(0, 4)) == 0:
        bare = [i for i, it in enumerate(items) if it["cls"] != "Collection"]
        if bare:
            items.append({"dup_of": bare[draw(st.integers(0, len(bare) - 1))]})
    leaves = []
    for it in items:
        if "dup_of" not in it:
            leaves.extend(trees.leaf_sources(it))
    return {
        "kind": "sum",
        "items": items,
        "observers": draw(_observers(leaves)),
        "field": draw(st.sampled_from(["B", "H", "B", "H", "J", "M"])),
        "sumup": draw(st.booleans()),
    }


@st.composite
def linear_case(draw):
    spec = draw(gen.source_spec(classes=gen.FIELD_CLASSES, max_path=2, L=1.0, pos_extent=1.0))
    obs = draw(gen.region_observers(spec, n_min=2, n_max=6, regions="well_conditioned"))
    akind = draw(st.sampled_from(["pow2", "pow2", "generic", "zero", "neg1"]))
    if akind == "pow2":
        k = draw(st.integers(-40, 40))
        a = float(2.0**k) * (1 if draw(st.booleans()) else -1)
    elif akind == "generic":
        a = gen.r6(draw(gen.logfloat(-3, 1))) * (1 if draw(st.booleans()) else -1)
    elif akind == "zero":
        a = 0.0
    else:
        a = -1.0
    exc2 = draw(gen.excitation_vec()) if "current" not in spec else gen.r6(draw(gen.ufloat(-5, 5)))
    return {"kind": "linear", "source": spec, "observers": obs, "a": a, "akind": akind, "exc2": exc2,
            "field": draw(st.sampled_from(["B", "H"]))}


def strategy(tier):
    return st.one_of(sum_case(), sum_case(), linear_case())


# --------------------------------------------------------------------------------------


class _SingleFailed(Exception):
    def __init__(self, cls, exc):
        super().__init__(cls)
        self.cls, self.exc = cls, exc


def _pad_path(a, M):
    """edge-pad axis 0 (path) to length M"""
    if a.shape[0] == M:
        return a
    reps = np.repeat(a[-1:], M - a.shape[0], axis=0)
    return np.concatenate([a, reps], axis=0)


def _run_sum(case, ctx):
    magpy = build.magpy
    fn = getattr(magpy, "get" + case["field"])
    registry = []
    objs = []
    item_specs = []
    for it in case["items"]:
        if "dup_of" in it:
            j = it["dup_of"] % len(objs)
            objs.append(objs[j])
            item_specs.append(item_specs[j])
        else:
            objs.append(trees.build_tree(it, registry))
            item_specs.append(it)
    observers = []
    for o in case["observers"]:
        if o["cls"] == "array":
            observers.append(np.array(o["value"], dtype=float))
        else:
            observers.append(build.build_sensor(o))
    res = build.call(fn, objs, observers, sumup=case["sumup"], squeeze=False)
    ctx.label("sum:field:" + case["field"])
    if not res.ok:
        return [Violation({"sub": "call_raised", **exc_sig(res.exc)}, repr(res.exc)[:300])]
    full = np.asarray(res.value)
    M = full.shape[1]
    # reference: explicit sums of single-source calls
    spec_to_obj = {id(s): o for o, s in registry}

    def reference(obs_list):
        refs, scales = [], []
        for it in item_specs:
            tot = None
            sc = None
            for lf in trees.leaf_sources(it):
                r1 = build.call(fn, spec_to_obj[id(lf)], obs_list, squeeze=False)
                if not r1.ok:
                    raise _SingleFailed(lf["cls"], r1.exc)
                v = _pad_path(np.asarray(r1.value)[0], M)
                tot = v if tot is None else tot + v
                sc = np.abs(v) if sc is None else sc + np.abs(v)
            refs.append(tot)
            scales.append(sc)
        ref_, scl_ = np.stack(refs), np.stack(scales)
        if case["sumup"]:
            ref_ = np.sum(ref_, axis=0, keepdims=True)
            scl_ = np.sum(scl_, axis=0, keepdims=True)
        return ref_, scl_

    try:
        ref, scl = reference(observers)
    except _SingleFailed as e:
        return [Violation({"sub": "single_call_raised", "cls": e.cls, **exc_sig(e.exc)}, repr(e.exc)[:300])]
    out = []
    if full.shape != ref.shape:
        out.append(Violation({"sub": "shape", "sumup": case["sumup"]}, f"result shape {full.shape}, sum of singles {ref.shape}"))
    else:
        floor = float(np.max(scl)) * 1e-6 if np.all(np.isfinite(scl)) else 1.0
        # a field vector that is non-finite on both sides (observer on a Dipole's own position: +-inf, and nan once
        # rotated or summed) is equal for this property; finiteness is C15's subject
        both_nonfinite = (np.any(~np.isfinite(full), axis=-1, keepdims=True) & np.any(~np.isfinite(ref), axis=-1, keepdims=True)) * np.ones(3, dtype=bool)
        if np.any(both_nonfinite):
            ctx.label("nonfinite_on_both_sides_skipped")
        with np.errstate(invalid="ignore"):
            bad = ~(np.abs(full - ref) <= 1e-9 * np.maximum(scl, floor))
            bad &= ~both_nonfinite
        if np.any(bad):
            # condition-aware allowance (see C06): displace every observer by 8 ulp and see how much
            # the explicit sum itself moves
            noise = np.zeros_like(ref)
            for ax in range(3):
                for sg in core.NOISE_STEPS:
                    shifted = []
                    for o in case["observers"]:
                        if o["cls"] == "array":
                            v = np.array(o["value"], dtype=float)
                            v[ax] += sg * max(float(np.max(np.abs(v))), 1e-300)
                            shifted.append(v)
                        else:
                            o2 = dict(o)
                            P = np.array(o["position"], dtype=float)
                            P[:, ax] += sg * np.maximum(np.max(np.abs(P), axis=1), 1e-300)
                            o2["position"] = P.tolist()
                            shifted.append(build.build_sensor(o2))
                    try:
                        r_s, _ = reference(shifted)
                        noise = np.maximum(noise, core.probe_diff(r_s, ref))
                    except _SingleFailed:
                        pass
            with np.errstate(invalid="ignore"):
                bad = ~(np.abs(full - ref) <= 1e-9 * np.maximum(scl, floor) + 20.0 * noise)
                bad &= ~both_nonfinite
            if not np.any(bad):
                ctx.label("illconditioned_tolerated")
        if np.any(bad):
            i = int(np.argwhere(bad)[0][0])
            kinds = "collection" if (not case["sumup"] and item_specs[i]["cls"] == "Collection") else ("sumup" if case["sumup"] else "bare")
            err = float(np.nanmax(np.abs(full - ref) / np.maximum(scl, floor)))
            out.append(Violation({"sub": "sum_differs", "where": kinds, "field": case["field"],
                                  "magnitude": "O(1)" if err > 1e-3 else "small"},
                                 f"entry {i}: max rel deviation from explicit sum {err:.3g}; items: "
                                 f"{[it['cls'] if it['cls'] != 'Collection' else 'Coll(%d)' % len(trees.leaf_sources(it)) for it in item_specs]}"))
    # non-trivial rule
    colls = [it for it in item_specs if it["cls"] == "Collection"]
    nt = False
    if len({len(trees.leaf_sources(c)) for c in colls}) >= 2:
        nt = True
        ctx.label("nt:collections_with_different_leaf_counts")
    for a, b in zip(item_specs[:-1], item_specs[1:]):
        if a["cls"] == "Collection" and b["cls"] != "Collection":
            nt = True
            ctx.label("nt:collection_followed_by_bare_source")
            break
    if any(trees.depth(c) >= 2 for c in colls):
        nt = True
        ctx.label("nt:nesting_depth>=2")
    if nt:
        ctx.mark_nontrivial(case)
        ctx.sample(case, nontrivial=True)
    else:
        ctx.sample(case)
    return out


def _set_exc(spec, value):
    s = dict(spec)
    for k in ("polarization", "current", "moment"):
        if k in s:
            s[k] = value
    return s


def _get_exc(spec):
    for k in ("polarization", "current", "moment"):
        if k in spec:
            return spec[k]
    raise KeyError


def _far(far_loss, f):
    """broadcast the per-observer far-field allowance to the result array (.., n_obs, 3)"""
    shape = [1] * f.ndim
    shape[-2] = f.shape[-2]
    return far_loss.reshape(shape)


def _run_linear(case, ctx):
    magpy = build.magpy
    fn = getattr(magpy, "get" + case["field"])
    spec = case["source"]
    obs = np.array([build.to_global(spec, o["local"]) for o in case["observers"]])
    x1 = np.asarray(_get_exc(spec), dtype=float)
    a = case["a"]
    x2 = np.asarray(case["exc2"], dtype=float)
    out = []

    def F(x):
        s = _set_exc(spec, x.tolist() if np.ndim(x) else float(x))
        r = build.call(fn, build.build_source(s), obs, squeeze=False)
        return r

    r1, ra, r2, r12 = F(x1), F(a * x1), F(x2), F(x1 + x2)
    for r in (r1, ra, r2, r12):
        if not r.ok:
            if core.raised_in_field_routine(r.exc):
                # an exception from inside a field routine is C15's subject; nothing to relate here
                ctx.label("field_routine_raised_not_judged_here")
                ctx.add_inconclusive()
                return []
            return [Violation({"sub": "call_raised", "cls": spec["cls"], **exc_sig(r.exc)}, repr(r.exc)[:300])]
    f1, fa, f2, f12 = (np.asarray(r.value) for r in (r1, ra, r2, r12))
    ctx.label("linear:" + spec["cls"])
    ctx.label("linear:a=" + case["akind"])
    # rows in which any of the four evaluations is non-finite are C15's subject (finite field at every finite
    # observer); linearity has nothing to compare there
    nonfin = ~(np.all(np.isfinite(f1), axis=-1, keepdims=True) & np.all(np.isfinite(fa), axis=-1, keepdims=True)
               & np.all(np.isfinite(f2), axis=-1, keepdims=True) & np.all(np.isfinite(f12), axis=-1, keepdims=True)) * np.ones(3, dtype=bool)
    if np.any(nonfin):
        ctx.label("nonfinite_rows_left_to_C15")

    def spread_of(x):
        """Numerical noise of F(x): what an 8-ulp displacement of the observers does to it."""
        base = np.asarray(F(x).value)
        sp = np.zeros_like(base)
        mag = np.maximum(np.max(np.abs(obs), axis=1, keepdims=True), 1e-300)
        s0 = _set_exc(spec, x.tolist() if np.ndim(x) else float(x))
        src = build.build_source(s0)
        for ax in range(3):
            for sg in core.NOISE_STEPS:
                d = np.zeros_like(obs)
                d[:, ax] = sg * mag[:, 0]
                r = build.call(fn, src, obs + d, squeeze=False)
                if r.ok:
                    sp = np.maximum(sp, core.probe_diff(r.value, base))
        return sp

    # cylinder-type routines go through polarization angles and iterative elliptic integrals
    # (own accuracy ~1e-8): linearity can only be asked to that accuracy there
    loose = spec["cls"] in ("CylinderSegment", "Cylinder")
    tol_add = 1e-7 if loose else 1e-10
    tol = 1e-7 if loose else (1e-12 if case["akind"] in ("pow2", "zero", "neg1") else 1e-10)
    # documented loss of precision at large distances (DESIGN.md 4.6): c_far * eps * (d/L)^3 per observer
    body_ = geom.body_from_spec(spec)
    dl = np.array([float(body_.dist(np.asarray(o["local"])[None])[0]) / body_.L for o in case["observers"]])
    far_loss = 100.0 * np.finfo(float).eps * dl**3
    # where the library's own accuracy band is wide (C01 envelope; inf = C01 asserts nothing there) linearity can only be
    # asked to that band
    from vf.props import c01  # pylint: disable=import-outside-toplevel

    band = c01.accuracy_band(spec["cls"], body_, np.array([o["local"] for o in case["observers"]], dtype=float))
    if np.any(band > 1e-5):
        ctx.label("observer_in_wide_accuracy_band")
    far_loss = far_loss + np.where(band > 1e-5, 3.0 * band, 0.0)
    # scale per observer: magnitude of the field vector there (components may cancel to ~0)
    sc = abs(a) * np.max(np.abs(f1), axis=-1, keepdims=True) + 1e-300
    sc = np.maximum(sc, float(np.nanmax(np.where(np.isfinite(sc), sc, 0.0))) * 1e-9) * np.ones_like(f1)
    with np.errstate(invalid="ignore"):
        bad = ~(np.abs(fa - a * f1) <= (tol + _far(far_loss, f1)) * sc) & ~nonfin
    if np.any(bad):
        noise = 20.0 * (abs(a) * spread_of(x1) + spread_of(a * x1))
        with np.errstate(invalid="ignore"):
            bad = ~(np.abs(fa - a * f1) <= (tol + _far(far_loss, f1)) * sc + noise) & ~nonfin
        if not np.any(bad):
            ctx.label("illconditioned_tolerated")
    if np.any(bad):
        err = float(np.nanmax(np.abs(fa - a * f1) / sc))
        out.append(Violation({"sub": "homogeneity", "cls": spec["cls"], "field": case["field"]},
                             f"F({a}*x) != {a}*F(x): max rel err {err:.3g}"))
    sc2 = np.max(np.abs(f1), axis=-1, keepdims=True) + np.max(np.abs(f2), axis=-1, keepdims=True) + 1e-300
    sc2 = np.maximum(sc2, float(np.nanmax(np.where(np.isfinite(sc2), sc2, 0.0))) * 1e-9) * np.ones_like(f1)
    with np.errstate(invalid="ignore"):
        bad = ~(np.abs(f12 - (f1 + f2)) <= (tol_add + _far(far_loss, f1)) * sc2) & ~nonfin
    if np.any(bad):
        noise = 20.0 * (spread_of(x1) + spread_of(x2) + spread_of(x1 + x2))
        with np.errstate(invalid="ignore"):
            bad = ~(np.abs(f12 - (f1 + f2)) <= (tol_add + _far(far_loss, f1)) * sc2 + noise) & ~nonfin
        if not np.any(bad):
            ctx.label("illconditioned_tolerated")
    if np.any(bad):
        err = float(np.nanmax(np.abs(f12 - (f1 + f2)) / sc2))
        out.append(Violation({"sub": "additivity", "cls": spec["cls"], "field": case["field"]},
                             f"F(x1+x2) != F(x1)+F(x2): max rel err {err:.3g}"))
    body = geom.body_from_spec(spec)
    ins = any(body.inside(np.asarray(o["local"])[None])[0] for o in case["observers"]) if body.kind == "magnet" else False
    big = case["akind"] == "pow2" and abs(np.log2(abs(a))) >= 10
    if ins or big:
        ctx.mark_nontrivial(case)
        ctx.sample(case, nontrivial=True)
        ctx.label("nt:linear_inside" if ins else "nt:linear_bigfactor")
    else:
        ctx.sample(case)
    return out


def run_case(case, ctx):
    if case["kind"] == "sum":
        return _run_sum(case, ctx)
    return _run_linear(case, ctx)
