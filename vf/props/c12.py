"""C12  Results are invariant under the choice of length unit.

Metamorphic oracle: every length of a configuration (dimensions, vertices, positions,
observers) is multiplied by s and the excitation by e; then F_{s,e}(s*obs) * s^p / e = F_1(obs)
with p = 0 (magnets; B,H,J,M), 1 (currents), 3 (dipoles).  For TriangularMesh additionally
the status flags, the face orientation and the inside decision are compared.
"""
from __future__ import annotations

import numpy as np
from hypothesis import strategies as st

from vf import build, core, gen, geom
from vf.core import Violation, exc_sig

ID = "C12"
LEVEL = "exploration"
TECHNIQUE = "metamorphic property-based testing: rescaling of all lengths and of the excitation (Hypothesis)"
RULE = (
    "case = base configuration of size ~1 (any of the ten classes, pose path 1-3, 2-6 observers by region with clearance "
    "1e-3 L incl. inside / near surface / near edge / far) x length factor s (2^k, k in [-30,30], or 10^U(-9,9)) x "
    "excitation factor 2^j (|j| <= 40). non-trivial = |log10 s| >= 3 and an observer region other than generic; "
    "distinct = canonical hash"
)
ASSUMPTIONS = [
    "power-of-two factors scale all lengths exactly in binary: tolerance 1e-9 of the field magnitude; arbitrary factors 1e-6; "
    "plus the conditioning allowance of C06 (what an 8-ulp..1e-11 relative displacement of the observer does at scale 1) and the documented far-field loss",
    "s*L stays within [1e-12, 1e12] so that no intermediate becomes subnormal",
]
CASE_TIMEOUT = 60
LENGTH_KEYS = ("diameter", "vertices")


def budget(tier):
    return {"examples": 8000 if tier == "quick" else 200000}


@st.composite
def case_strategy(draw):
    spec = draw(gen.source_spec(classes=gen.FIELD_CLASSES, max_path=3, L=1.0, pos_extent=2.0))
    obs = draw(gen.region_observers(spec, n_min=2, n_max=6, clear=1e-3))
    kind = draw(st.sampled_from(["pow2", "pow2", "pow10"]))
    if kind == "pow2":
        k = draw(st.integers(-30, 30))
        s = float(2.0**k)
    else:
        s = float(10.0 ** gen.r6(draw(gen.ufloat(-9, 9))))
    j = draw(st.sampled_from([0, 0, 0] + list(range(-40, 41, 5))))
    return {"source": spec, "observers": obs, "s": s, "s_kind": kind, "e": float(2.0**j),
            "field": draw(st.sampled_from(["B", "H", "B", "H", "J", "M"]))}


@st.composite
def classify_case(draw):
    """inside / outside decision next to a surface: a magnet in identity pose, observers a tiny but representable distance
    (1e-12 .. 1e-4 L) on either side of its surface, all lengths scaled by a power of two.  Every length then scales
    exactly in binary, so whatever the library decides at scale 1 it must decide at scale s: J and M agree bit for bit."""
    spec = draw(gen.source_spec(classes=gen.MAGNETS, max_path=1, L=1.0, with_pose=False))
    body = geom.body_from_spec(spec)
    obs = []
    for _ in range(draw(st.integers(2, 6))):
        u = draw(gen.uniforms(8))
        S, n, _ = body.surface_point(u)
        d = body.L * 10.0 ** (-12 + 8 * u[6]) * (1 if u[7] < 0.5 else -1)
        obs.append({"region": "next_to_surface", "local": [float(x) for x in (np.asarray(S) + np.asarray(n) * d)], "offset": float(d)})
    return {"kind": "classify", "source": spec, "observers": obs, "s": float(2.0 ** draw(st.integers(-30, 30))), "s_kind": "pow2", "e": 1.0,
            "field": draw(st.sampled_from(["J", "M"]))}


def strategy(tier):
    return st.one_of(case_strategy(), case_strategy(), case_strategy(), classify_case())


def _run_classify(case, ctx):
    magpy = build.magpy
    spec, s, field = case["source"], case["s"], case["field"]
    cls = spec["cls"]
    ctx.label(f"classify:{cls}")
    ctx.label(f"decade:{int(np.floor(np.log10(s)))}")
    P = np.array([o["local"] for o in case["observers"]], dtype=float)
    fn = getattr(magpy, "get" + field)
    r1 = build.call(fn, build.build_source(spec), P, squeeze=False)
    rb = build.call(build.build_source, scale_spec(spec, s, 1.0))
    if not r1.ok or not rb.ok:
        bad = r1 if not r1.ok else rb
        return [Violation({"sub": "call_raised", "cls": cls, "at": "classify", **exc_sig(bad.exc)}, repr(bad.exc)[:200])]
    rs = build.call(fn, rb.value, P * s, squeeze=False)
    if not rs.ok:
        return [Violation({"sub": "call_raised", "cls": cls, "at": "classify_scaled", **exc_sig(rs.exc)}, repr(rs.exc)[:200])]
    F1, Fs = np.asarray(r1.value).reshape(-1, 3), np.asarray(rs.value).reshape(-1, 3)
    out = []
    diff = np.any(F1 != Fs, axis=1) & ~(np.any(np.isnan(F1), axis=1) & np.any(np.isnan(Fs), axis=1))
    if np.any(diff):
        k = int(np.flatnonzero(diff)[0])
        o = case["observers"][k]
        out.append(Violation({"sub": "inside_decision_depends_on_unit", "cls": cls, "field": field, "decade": int(np.floor(np.log10(s))),
                              "offset_decade": int(np.floor(np.log10(abs(o["offset"]) / geom.body_from_spec(spec).L))), "side": "out" if o["offset"] > 0 else "in"},
                             f"{cls} get{field} at {o['local']} ({o['offset']:.3g} from the surface): {F1[k].tolist()} at scale 1, {Fs[k].tolist()} at scale {s:g} "
                             f"(all lengths scaled exactly by a power of two)"))
    if abs(np.log10(s)) >= 3:
        ctx.mark_nontrivial(case)
        ctx.sample(case, nontrivial=True)
    else:
        ctx.sample(case)
    return out


def scale_spec(spec, s, e):
    out = dict(spec)
    if "dimension" in out:
        d = list(out["dimension"])
        if spec["cls"] == "CylinderSegment":
            d = [d[0] * s, d[1] * s, d[2] * s, d[3], d[4]]
        else:
            d = [x * s for x in d]
        out["dimension"] = d
    if "diameter" in out:
        out["diameter"] = out["diameter"] * s
    if "vertices" in out:
        out["vertices"] = (np.asarray(out["vertices"], dtype=float) * s).tolist()
    out["position"] = (np.asarray(out["position"], dtype=float) * s).tolist()
    for k in ("polarization", "moment"):
        if k in out:
            out[k] = (np.asarray(out[k], dtype=float) * e).tolist()
    if "current" in out:
        out["current"] = out["current"] * e
    return out


def run_case(case, ctx):
    if case.get("kind") == "classify":
        return _run_classify(case, ctx)
    magpy = build.magpy
    spec = case["source"]
    cls = spec["cls"]
    s, e, field = case["s"], case["e"], case["field"]
    fn = getattr(magpy, "get" + field)
    p = 0 if ("polarization" in spec) else (1 if "current" in spec else 3)
    out = []
    ctx.label(f"class:{cls}")
    ctx.label(f"decade:{int(np.floor(np.log10(s)))}")
    loc = np.array([o["local"] for o in case["observers"]], dtype=float)
    obs1 = np.array([build.to_global(spec, q) for q in loc])
    src1 = build.build_source(spec)
    r1 = build.call(fn, src1, obs1, squeeze=False)
    if not r1.ok:
        return [Violation({"sub": "call_raised", "cls": cls, "at": "unit_scale", **exc_sig(r1.exc)}, repr(r1.exc)[:200])]
    F1 = np.asarray(r1.value)
    spec_s = scale_spec(spec, s, e)
    rb = build.call(build.build_source, spec_s)
    if not rb.ok:
        return [Violation({"sub": "construction_raised", "cls": cls, "decade": int(np.floor(np.log10(s))), **exc_sig(rb.exc)},
                          f"scaled by {s:g}: {type(rb.exc).__name__}: {str(rb.exc)[:200]}")]
    src_s = rb.value
    rs = build.call(fn, src_s, obs1 * s, squeeze=False)
    if not rs.ok:
        return [Violation({"sub": "call_raised", "cls": cls, "at": "scaled", "decade": int(np.floor(np.log10(s))), **exc_sig(rs.exc)}, repr(rs.exc)[:200])]
    Fs = np.asarray(rs.value) * (s**p) / e
    body = geom.body_from_spec(spec)
    npath = F1.shape[1]
    dl = np.array([[float(body.dist(build.to_local(spec, q, m)[None])[0]) / body.L for q in obs1] for m in range(npath)])
    # the library's own accuracy band there (C01 envelope; inf where C01 asserts nothing): two unit systems present
    # differently rounded inputs to an ill-conditioned formula and may differ by as much
    from vf.props import c01  # pylint: disable=import-outside-toplevel

    band = np.array([c01.accuracy_band(cls, body, np.array([build.to_local(spec, q, m) for q in obs1])) for m in range(npath)])
    band = np.where(band > 1e-5, 3.0 * band, 0.0)
    if np.any(band > 0):
        ctx.label("observer_in_wide_accuracy_band")
    far = (100.0 * np.finfo(float).eps * dl**3 + band).reshape((1, npath, 1, len(obs1), 1))
    base = 1e-9 if case["s_kind"] == "pow2" else 1e-6
    if cls in ("CylinderSegment", "Cylinder"):
        base = max(base, 1e-7)
    fs = build.field_scale(spec) * (1.0 if field in "BJ" else 1.0 / magpy.mu_0)
    sc = np.maximum(np.max(np.abs(F1), axis=-1, keepdims=True), 1e-12 * fs) * np.ones(3)
    finite = np.isfinite(F1) & np.isfinite(Fs)
    if not np.all(finite):
        ctx.label("nonfinite_elements_skipped")
    with np.errstate(invalid="ignore"):
        bad = ~(np.abs(Fs - F1) <= (base + far) * sc) & finite
    if np.any(bad):
        nz = np.zeros_like(F1)
        mag = np.maximum(np.max(np.abs(obs1), axis=1, keepdims=True), 1e-300)
        for step in core.NOISE_STEPS + (1e-9, -1e-9):
            for ax in range(3):
                d = np.zeros_like(obs1)
                d[:, ax] = step * mag[:, 0]
                r = build.call(fn, src1, obs1 + d, squeeze=False)
                if r.ok:
                    with np.errstate(invalid="ignore"):
                        dv = np.abs(np.asarray(r.value) - F1)
                    nz = np.maximum(nz, np.where(np.isfinite(dv), dv, np.inf))
        nzr = np.max(nz, axis=-1, keepdims=True) * np.ones(3)
        with np.errstate(invalid="ignore"):
            bad = ~(np.abs(Fs - F1) <= (base + far) * sc + 20 * nzr) & finite
        if not np.any(bad):
            ctx.label("illconditioned_tolerated")
    # Power-of-two factors scale every length (and excitation) exactly in binary, and every step of a closed form that is
    # homogeneous in the lengths commutes with that scaling, rounding included: the rescaled result is then the *same
    # floating-point number*, however ill-conditioned the formula is at that observer. Only an absolute threshold or an
    # inhomogeneous step breaks this. (Measured on this tree: bit-identical for all classes except the Cuboid, whose
    # formula subtracts logarithms of products of four lengths; it keeps the tolerance above.)
    if case["s_kind"] == "pow2" and cls != "Cuboid":
        with np.errstate(invalid="ignore", divide="ignore"):
            exact_bad = ~(np.abs(Fs - F1) <= 1e-12 * sc) & finite
        if np.any(exact_bad):
            ctx.label("pow2_not_exact")
            bad = bad | exact_bad
    if np.any(bad):
        idx = np.argwhere(bad)[0]
        k_obs = int(idx[3])
        err = float(np.max((np.abs(Fs - F1) / sc)[bad]))
        reg = case["observers"][k_obs]["region"]
        ins = bool(body.inside(np.asarray(case["observers"][k_obs]["local"])[None])[0]) if body.kind == "magnet" else False
        out.append(Violation({"sub": "scale", "cls": cls, "field": field, "decade": int(np.floor(np.log10(s))),
                              "magnitude": "O(1)" if err > 1e-2 else ("1e-5..1e-2" if err > 1e-5 else "small"),
                              "region": reg, "inside": ins},
                             f"{cls} {field}: all lengths x {s:g}, excitation x {e:g}: rescaled result differs by {err:.3g} (relative) at observer "
                             f"{k_obs} (region {reg}, inside={ins}, d/L={dl[int(idx[1]), k_obs]:.3g}); F1={F1[tuple(idx[:4])].tolist()} Fs={Fs[tuple(idx[:4])].tolist()}"))
    # mesh status / orientation do not depend on the unit
    if cls == "TriangularMesh":
        try:
            flags1 = (src1.status_open, src1.status_disconnected, src1.status_selfintersecting, src1.status_reoriented)
            flags_s = (src_s.status_open, src_s.status_disconnected, src_s.status_selfintersecting, src_s.status_reoriented)
            if flags1 != flags_s:
                out.append(Violation({"sub": "mesh_status", "decade": int(np.floor(np.log10(s)))},
                                     f"status (open, disconnected, selfintersecting, reoriented) {flags1} at scale 1, {flags_s} at scale {s:g}"))
            if not np.array_equal(np.asarray(src1.faces), np.asarray(src_s.faces)):
                nflip = int(np.sum(np.any(np.asarray(src1.faces) != np.asarray(src_s.faces), axis=1)))
                out.append(Violation({"sub": "mesh_orientation", "decade": int(np.floor(np.log10(s)))},
                                     f"faces after reorientation differ at scale {s:g}: {nflip} of {len(src1.faces)} faces wound differently"))
        except Exception as ex:  # pylint: disable=broad-except
            out.append(Violation({"sub": "mesh_status_raised", "exc": type(ex).__name__}, repr(ex)[:200]))
    nt = abs(np.log10(s)) >= 3 and any(o["region"] != "generic" for o in case["observers"])
    if nt:
        ctx.mark_nontrivial(case)
        ctx.sample(case, nontrivial=True)
    else:
        ctx.sample(case)
    return out
