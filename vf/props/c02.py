"""C02  B = mu0*H + J everywhere; J and M report the body's polarization.

(a) invariant among the four library outputs at every observer, surfaces included;
(b) value of J against the harness' own inside predicate;
(c) polarization / magnetization attribute pairs under sequences of assignments;
(d) a truthful in_out gives the same result as 'auto'.
"""
from __future__ import annotations

import numpy as np
from hypothesis import strategies as st

from vf import build, gen, geom
from vf.core import Violation, exc_sig

ID = "C02"
LEVEL = "exploration"
TECHNIQUE = "property-based testing: invariant among library outputs + harness geometric predicate (Hypothesis)"
RULE = (
    "two case kinds. 'field': one source of any class, identity or generic pose, 4-12 observers drawn from the "
    "region set of the class (inside, near faces/edges/corners, axis, far ...) plus points constructed exactly ON "
    "faces, edges, corners, the axis and the centre; all four fields; in_out auto and, when truthful for every "
    "observer, inside/outside (Tetrahedron, TriangularMesh). 'attr': magnet class, 1-4 assignments of "
    "polarization/magnetization through constructor and setter. non-trivial (field) = some observer inside or on "
    "the surface of a magnet; (attr) = assignment sequence of length >= 2; distinct = canonical hash"
)
ASSUMPTIONS = [
    "mu_0 is magpylib.mu_0 (the single exported constant)",
    "relation tolerance 1e-12 of the largest term at the observer; attribute tolerance 4 ulp",
    "rows that are non-finite at documented singular points (Dipole position, vertices of Triangle-based sources) are skipped",
    "J value is only judged at observers with clearance >= 1e-6 L from the surface (harness predicate)",
]


def budget(tier):
    return {"examples": 3000 if tier == "quick" else 150000}


@st.composite
def field_case(draw):
    spec = draw(gen.source_spec(max_path=1, pos_extent=2.0))
    if draw(st.integers(0, 2)) == 0:
        spec["position"] = [[0.0, 0.0, 0.0]]
        spec["orientation"] = [[0.0, 0.0, 0.0, 1.0]]
    body = geom.body_from_spec(spec)
    obs = draw(gen.region_observers(spec, n_min=2, n_max=6, clear=1e-6))
    # every magnet gets at least one observer well inside the material, and every body with a hole one in the hole:
    # the two places where "J = polarization inside, zero outside" says different things for neighbouring points
    if body.kind == "magnet":
        for reg in ("inside", "bore"):
            if reg in geom.regions_for(body):
                p = geom.observer_in_region(body, reg, draw(gen.uniforms(8)), clear=1e-3)
                if p is not None:
                    obs.append({"region": reg, "local": [float(x) for x in p]})
    nspec = draw(st.integers(2, 6))
    for _ in range(nspec):
        kind = draw(st.sampled_from(geom.SPECIAL_KINDS))
        r = geom.special_point(body, kind, draw(gen.uniforms(8)))
        if r is not None:
            obs.append({"region": kind, "local": [float(x) for x in r[0]], "detail": r[1]})
    return {"kind": "field", "source": spec, "observers": obs,
            "batch": draw(st.sampled_from(["together", "together", "one_by_one"]))}


@st.composite
def attr_case(draw):
    cls = draw(st.sampled_from(gen.MAGNETS + ["Triangle"]))
    spec = draw(gen.source_spec(classes=[cls], max_path=1, L=1.0))
    n = draw(st.integers(1, 4))
    steps = []
    for i in range(n):
        how = draw(st.sampled_from(["ctor_pol", "ctor_mag"])) if i == 0 else draw(st.sampled_from(["set_pol", "set_mag"]))
        mag = draw(gen.logfloat(-6, 6))
        v = draw(gen.excitation_vec(mag=1.0))
        if i > 0 and draw(st.integers(0, 5)) == 0:
            steps.append({"how": how, "value": None})  # documented: None = "not set"; both attributes then read None
        else:
            # (one setter step in six runs with warnings turned into errors, as under `python -W error`: a library warning
            #  then aborts the assignment, and the two attributes must still describe one state)
            steps.append({"how": how, "value": [float(x * mag) for x in v], "strict_warnings": i > 0 and draw(st.integers(0, 5)) == 0})
    return {"kind": "attr", "source": spec, "steps": steps}


def strategy(tier):
    return st.one_of(field_case(), field_case(), field_case(), attr_case())


# --------------------------------------------------------------------------------------


def _run_field(case, ctx):
    magpy = build.magpy
    mu0 = magpy.mu_0
    spec = case["source"]
    cls = spec["cls"]
    body = geom.body_from_spec(spec)
    src = build.build_source(spec)
    loc = np.array([o["local"] for o in case["observers"]], dtype=float)
    gl = np.array([build.to_global(spec, p) for p in loc])
    _, rot = build.pose_at(spec, 0)
    out = []
    ctx.label(f"class:{cls}")
    if cls == "CylinderSegment" and getattr(body, "full", False):
        ctx.label("segment:full_turn_ring" if body.r1 > 0 else "segment:full_turn_solid")
    F = {}
    for X in "BHJM":
        fn = getattr(magpy, "get" + X)
        if case["batch"] == "together":
            r = build.call(fn, src, gl, squeeze=False)
            if r.ok:
                F[X] = np.asarray(r.value).reshape(-1, 3)
        else:
            rows = []
            r = None
            for p in gl:
                r = build.call(fn, src, p, squeeze=False)
                if not r.ok:
                    break
                rows.append(np.asarray(r.value).reshape(3))
            if r is not None and r.ok:
                F[X] = np.array(rows)
        if X not in F:
            # an exception from a field call is C15's subject (finite result, no exception); here there is
            # nothing to relate, the case is counted and skipped
            ctx.label("call_raised_not_judged_here")
            ctx.add_inconclusive()
            return []
    B, H, J, M = F["B"], F["H"], F["J"], F["M"]
    dist = body.dist(loc) / body.L
    inside = body.inside(loc) if body.kind == "magnet" else np.zeros(len(loc), dtype=bool)
    nt = False
    for i, o in enumerate(case["observers"]):
        reg = o["region"]
        ctx.label(f"region:{reg}")
        on_special = reg in geom.SPECIAL_KINDS
        if body.kind == "magnet" and (inside[i] or (on_special and dist[i] < 1e-9)):
            nt = True
        row = np.concatenate([B[i], H[i], J[i], M[i]])
        if not np.all(np.isfinite(row)):
            ctx.label("nonfinite_row_skipped")  # C15 judges finiteness
            continue
        # the residual is judged against the larger of the terms and the natural magnitude of the source's field
        # at that distance: where the field cancels to rounding noise (a wire running there and back, a point of
        # symmetry) B and mu0*H are two differently rounded zeros
        big = max(np.max(np.abs(B[i])), mu0 * np.max(np.abs(H[i])), np.max(np.abs(J[i])), _natural_B(spec, body, dist[i], mu0), 1e-300)
        r1 = np.max(np.abs(B[i] - mu0 * H[i] - J[i])) / big
        # far field: B and H are each sums of large cancelling terms (documented loss ~ eps*(d/L)^3)
        if r1 > 1e-12 + 10 * np.finfo(float).eps * dist[i] ** 3:
            out.append(Violation({"sub": "B=mu0H+J", "cls": cls, "where": _where(reg, o, dist[i]), "batch": case["batch"]},
                                 f"|B - mu0*H - J|/max = {r1:.3g} at local {loc[i].tolist()} (region {reg}, d/L={dist[i]:.3g}): "
                                 f"B={B[i].tolist()} mu0H={(mu0 * H[i]).tolist()} J={J[i].tolist()}",
                                 case={**case, "observers": [o]}))
        bigj = max(np.max(np.abs(J[i])), mu0 * np.max(np.abs(M[i])), 1e-300)
        r2 = np.max(np.abs(J[i] - mu0 * M[i])) / bigj
        if r2 > 1e-12:
            out.append(Violation({"sub": "J=mu0M", "cls": cls, "where": _where(reg, o, dist[i])},
                                 f"|J - mu0*M|/max = {r2:.3g} (region {reg})", case={**case, "observers": [o]}))
        # (b) value of J
        if body.kind != "magnet":
            if np.any(J[i] != 0) or np.any(M[i] != 0):
                out.append(Violation({"sub": "J_nonzero_for_nonmagnet", "cls": cls}, f"J={J[i].tolist()} M={M[i].tolist()}"))
        elif dist[i] >= 1e-6:
            want = rot.apply(np.asarray(spec["polarization"], dtype=float)) if inside[i] else np.zeros(3)
            pm = max(float(np.linalg.norm(spec["polarization"])), 1e-300)
            if np.max(np.abs(J[i] - want)) > 1e-12 * pm:
                out.append(Violation({"sub": "J_value", "cls": cls, "inside": bool(inside[i]), "where": _where(reg, o, dist[i]),
                                      "coplanar_face_planes": _coplanar(body, loc[i])},
                                     f"J={J[i].tolist()} expected {want.tolist()} (harness inside={bool(inside[i])}, d/L={dist[i]:.3g}, "
                                     f"region {reg}, local {loc[i].tolist()})", case={**case, "observers": [o]}))
    # (d) truthful in_out
    if cls in ("Tetrahedron", "TriangularMesh"):
        clear = dist >= 1e-6
        for label, truth in (("inside", inside), ("outside", ~inside)):
            if np.all(truth) and np.all(clear):
                for X in "BHJM":
                    r = build.call(getattr(magpy, "get" + X), src, gl, squeeze=False, in_out=label)
                    if not r.ok:
                        out.append(Violation({"sub": "in_out_raised", "cls": cls, **exc_sig(r.exc)}, repr(r.exc)[:200]))
                        break
                    v = np.asarray(r.value).reshape(-1, 3)
                    sc = max(float(np.max(np.abs(F[X]))) if np.all(np.isfinite(F[X])) else 0.0, 1e-300)
                    # the two routes order the vertices differently; next to an edge line the triangle formula is
                    # ill-conditioned and the library's own accuracy band (C01 envelope) bounds what they may differ by
                    from vf.props import c01 as _c01  # pylint: disable=import-outside-toplevel

                    bnd = _c01.accuracy_band(cls, body, loc)
                    row_allow = (1e-9 + np.where(bnd > 1e-5, 3.0 * bnd, 0.0))[:, None] * sc  # (1e-9: as every other relation check)
                    with np.errstate(invalid="ignore"):
                        if np.any(np.abs(v - F[X]) > row_allow):
                            worst = int(np.nanargmax(np.max(np.abs(v - F[X]), axis=1)))
                            out.append(Violation({"sub": "in_out_truthful_differs", "cls": cls, "in_out": label,
                                                  "coplanar_face_planes": _coplanar(body, loc[worst])},
                                                 f"in_out='{label}' (true for all observers) differs from 'auto': "
                                                 f"max abs {float(np.nanmax(np.abs(v - F[X]))):.3g} of scale {sc:.3g}"))
                ctx.label(f"in_out_truthful:{label}")
    if nt:
        ctx.mark_nontrivial(case)
        ctx.sample(case, nontrivial=True)
    else:
        ctx.sample(case)
    return _first_per_sig(out)


def _coplanar(body, p):
    """number of distinct face planes of a polyhedron that contain p (degenerate placements for
    ray casting), as '0', '1' or '>=2'; 'n/a' for other bodies"""
    if not isinstance(body, geom.Polyhedron):
        return "n/a"
    d = np.abs(np.einsum("ij,ij->i", body.normal, p[None] - body.tris[:, 0]))
    hit = body.normal[d < 1e-12 * body.L]
    planes = []
    for n in hit:
        if not any(abs(abs(float(np.dot(n, m))) - 1) < 1e-9 for m in planes):
            planes.append(n)
    return "0" if not planes else ("1" if len(planes) == 1 else ">=2")


def _natural_B(spec, body, d_rel, mu0):
    """upper bound for the magnitude of B of this source at distance d_rel*L (used as a floor of comparison scales)"""
    d = max(float(d_rel), 1e-3)
    cls = spec["cls"]
    if "polarization" in spec:
        return float(np.linalg.norm(spec["polarization"])) * min(1.0, d**-3)
    if cls in ("Circle", "Polyline"):
        return mu0 * abs(float(spec["current"])) / body.L * min(1e3, 1.0 / d) if d < 1 else mu0 * abs(float(spec["current"])) / body.L / d**2
    if cls == "Dipole":
        return mu0 * float(np.linalg.norm(spec["moment"])) / (4 * np.pi * (d * body.L) ** 3)
    return 0.0


def _where(reg, o, d):
    if reg in geom.SPECIAL_KINDS:
        return reg + (":" + o.get("detail", "") if o.get("detail") else "")
    return "off_surface" if d >= 1e-6 else "near_surface"


def _first_per_sig(vs):
    seen, out = set(), []
    for v in vs:
        k = v.sig_key()
        if k not in seen:
            seen.add(k)
            out.append(v)
    return out


def _ulps(a, b):
    a, b = np.asarray(a, dtype=float), np.asarray(b, dtype=float)
    sp = np.spacing(np.maximum(np.abs(a), np.abs(b)))
    with np.errstate(invalid="ignore", divide="ignore"):
        return float(np.max(np.where(a == b, 0.0, np.abs(a - b) / sp)))


def _relbucket(a, b):
    """relative deviation class: '1.3e-10' is the ratio of 4*pi*1e-7 to scipy's mu_0 (known finding
    KF-C02-1); anything else is 'other' and stays a violation"""
    a, b = np.asarray(a, dtype=float), np.asarray(b, dtype=float)
    m = max(float(np.max(np.abs(b))), 1e-300)
    r = float(np.max(np.abs(a - b))) / m
    return "1.3e-10" if 1.25e-10 < r < 1.40e-10 else "other"


def _run_attr(case, ctx):
    magpy = build.magpy
    mu0 = magpy.mu_0
    spec = dict(case["source"])
    cls = spec["cls"]
    spec.pop("polarization", None)
    out = []
    obj = None
    ctx.label(f"attr:{cls}")
    for i, stp in enumerate(case["steps"]):
        how = stp["how"]
        if stp["value"] is None:
            # clearing through either attribute clears both (they describe one state)
            ctx.label(f"attr_how:{how}_None")
            r = build.call(setattr, obj, "polarization" if how == "set_pol" else "magnetization", None)
            if not r.ok:
                return [Violation({"sub": "setter_raised", "cls": cls, **exc_sig(r.exc)}, repr(r.exc)[:200])]
            if obj.polarization is not None or obj.magnetization is not None:
                out.append(Violation({"sub": "attr_None_inconsistent", "cls": cls, "how": how},
                                     f"{cls} after {'polarization' if how == 'set_pol' else 'magnetization'} = None: polarization={obj.polarization!r} "
                                     f"magnetization={obj.magnetization!r} (both must read None)"))
            continue
        v = np.asarray(stp["value"], dtype=float)
        ctx.label(f"attr_how:{how}")
        if how.startswith("ctor"):
            s2 = dict(spec)
            s2["polarization" if how == "ctor_pol" else "magnetization"] = v.tolist()
            r = build.call(build.build_source, s2)
            if not r.ok:
                return [Violation({"sub": "ctor_raised", "cls": cls, **exc_sig(r.exc)}, repr(r.exc)[:200])]
            obj = r.value
        elif stp.get("strict_warnings"):
            import warnings  # pylint: disable=import-outside-toplevel

            ctx.label("attr_how:strict_warnings")
            raised = None
            with warnings.catch_warnings():
                warnings.simplefilter("error")
                try:
                    setattr(obj, "polarization" if how == "set_pol" else "magnetization", v)
                except Warning as w:
                    raised = w
                except Exception as ex:  # pylint: disable=broad-except
                    return [Violation({"sub": "setter_raised", "cls": cls, **exc_sig(ex)}, repr(ex)[:200])]
            if raised is not None:
                # the assignment was aborted by a warning: whichever state the object is in, it must be one state
                ctx.label("assignment_aborted_by_warning")
                pol_, mag_ = obj.polarization, obj.magnetization
                ok_ = (pol_ is None and mag_ is None) or (pol_ is not None and mag_ is not None and
                                                          np.allclose(np.asarray(pol_), np.asarray(mag_) * mu0, rtol=1e-9, atol=0))
                if not ok_:
                    out.append(Violation({"sub": "attr_inconsistent_after_warning", "cls": cls, "how": how},
                                         f"{cls}: {'polarization' if how == 'set_pol' else 'magnetization'} = {v.tolist()} was aborted by {type(raised).__name__} "
                                         f"({str(raised)[:80]}); afterwards polarization={None if pol_ is None else np.asarray(pol_).tolist()}, "
                                         f"magnetization={None if mag_ is None else np.asarray(mag_).tolist()}"))
                continue
        else:
            r = build.call(setattr, obj, "polarization" if how == "set_pol" else "magnetization", v)
            if not r.ok:
                return [Violation({"sub": "setter_raised", "cls": cls, **exc_sig(r.exc)}, repr(r.exc)[:200])]
        pol, mag = np.asarray(obj.polarization), np.asarray(obj.magnetization)
        if how.endswith("pol"):
            if not np.array_equal(pol, v):
                out.append(Violation({"sub": "attr_readback", "cls": cls, "how": how}, f"polarization {pol.tolist()} != assigned {v.tolist()}"))
            u = _ulps(mag, v / mu0)
            if u > 4:
                out.append(Violation({"sub": "attr_J=mu0M", "how": how[-3:], "rel": _relbucket(mag, v / mu0)},
                                     f"{cls} after polarization={v.tolist()}: magnetization={mag.tolist()} differs from polarization/magpylib.mu_0 "
                                     f"by {u:.3g} ulp (rel {float(np.max(np.abs(mag - v / mu0)) / max(np.max(np.abs(mag)), 1e-300)):.3g})"))
        else:
            if not np.array_equal(mag, v):
                out.append(Violation({"sub": "attr_readback", "cls": cls, "how": how}, f"magnetization {mag.tolist()} != assigned {v.tolist()}"))
            u = _ulps(pol, v * mu0)
            if u > 4:
                out.append(Violation({"sub": "attr_J=mu0M", "how": how[-3:], "rel": _relbucket(pol, v * mu0)},
                                     f"{cls} after magnetization={v.tolist()}: polarization={pol.tolist()} differs from magnetization*magpylib.mu_0 "
                                     f"by {u:.3g} ulp"))
        # getM / getJ inside equal the attributes (centre of mass is inside for these bodies)
        body = geom.body_from_spec(case["source"])
        if body.kind == "magnet":
            p_in = geom.observer_in_region(body, "inside", [0.37, 0.41, 0.43, 0.47, 0.5, 0.5, 0.5, 0.5], clear=1e-3)
            if p_in is not None and bool(body.inside(p_in[None])[0]):
                gp = build.to_global(case["source"], p_in)
                _, rot = build.pose_at(case["source"], 0)
                rM = build.call(obj.getM, gp)
                rJ = build.call(obj.getJ, gp)
                if rM.ok and rJ.ok:
                    uM = _ulps(rot.inv().apply(np.asarray(rM.value)), mag) if False else None
                    dM = np.max(np.abs(np.asarray(rM.value) - rot.apply(mag))) / max(np.max(np.abs(mag)), 1e-300)
                    dJ = np.max(np.abs(np.asarray(rJ.value) - rot.apply(pol))) / max(np.max(np.abs(pol)), 1e-300)
                    if dM > 1e-12 or dJ > 1e-12:
                        out.append(Violation({"sub": "getM_vs_attribute", "rel": _relbucket(np.asarray(rM.value), rot.apply(mag)) if dJ <= 1e-12 else "other"},
                                             f"inside the body getM deviates {dM:.3g}, getJ {dJ:.3g} from the attributes"))
    if len(case["steps"]) >= 2:
        ctx.mark_nontrivial(case)
        ctx.sample(case, nontrivial=True)
    else:
        ctx.sample(case)
    return _first_per_sig(out)


def run_case(case, ctx):
    if case["kind"] == "field":
        return _run_field(case, ctx)
    return _run_attr(case, ctx)
