"""C08  Field computation never changes objects or inputs, even when it fails.

Generated: a configuration (sources, nested collections, sensors, caller arrays) with unequal
path lengths, a call form, and a *fault plan* (kind x position).  Oracle: byte-exact
snapshot of every reachable object and every caller-owned array before and after the call,
whether it returned or raised; a second identical call gives the identical outcome.
"""
from __future__ import annotations

import copy

import numpy as np
from hypothesis import strategies as st
from scipy.spatial.transform import Rotation as R

from vf import build, gen, trees
from vf.core import Violation, exc_sig

ID = "C08"
LEVEL = "fault_enumeration"
RULE = (
    "case = generated configuration (1-4 top-level sources incl. nested collections, 1-3 observers "
    "of mixed kinds, path lengths 1-4 per object) x call form x fault plan; fault kinds and fault "
    "positions are enumerated round-robin from the case index, the configuration is generated. "
    "non-trivial = the objects have unequal path lengths with max > 1 (library tiles paths in "
    "place before the fault can fire) or caller-owned ndarrays are passed (functional form); "
    "distinct = canonical hash of the whole case"
)
ASSUMPTIONS = [
    "snapshot covers _position,_orientation,geometry,excitation,pixel,handedness,parent/children ids,style dict",
    "second-call comparison resets the call counter of counting custom field functions first",
]

FIELDS = ["B", "H", "J", "M"]
FAULTS = [
    "none", "none", "no_dimension", "no_excitation", "custom_no_func", "custom_none", "custom_raises",
    "custom_wrong_shape", "custom_wrong_type", "bad_pixel_agg", "bad_output", "bad_in_out", "pixel_mismatch",
    "kwargs_in_oo", "empty_sources", "bad_observers", "dataframe", "sensor_in_sources", "bad_field_for_custom",
]


def budget(tier):
    return {"examples": 1600 if tier == "quick" else 60000, "fuzz_runs": 0 if tier == "quick" else 20000}


# ----------------------------------------------------------------------------- generation

_leaf = gen.source_spec(classes=["Cuboid", "Cylinder", "Sphere", "Tetrahedron", "TriangularMesh", "Triangle",
                                 "Circle", "Polyline", "Dipole", "CylinderSegment"], max_path=4, L=1.0)
_sensor = gen.sensor_spec(max_path=4)


_leaf_static = gen.source_spec(classes=["Cuboid", "Cylinder", "Sphere", "Tetrahedron", "TriangularMesh", "Triangle",
                                        "Circle", "Polyline", "Dipole", "CylinderSegment"], max_path=1, L=1.0)


@st.composite
def minimal_case(draw):
    """the smallest configuration: one static source, one observer point (the code has fast paths for it)"""
    k = draw(st.sampled_from(["array", "array", "sensor"]))
    if k == "array":
        obs = {"cls": "array", "value": [draw(gen.ufloat(-3, 3)) for _ in range(3)], "as": draw(st.sampled_from(["ndarray", "list", "tuple"]))}
    else:
        obs = {"cls": "Sensor", "pixel": None, "handedness": "right", "position": [[draw(gen.ufloat(-3, 3)) for _ in range(3)]],
               "orientation": [draw(gen.quaternion())], "path_kind": "static"}
    return {"form": "oo", "iface": draw(st.sampled_from(["top", "src_method", "sens_method" if k == "sensor" else "top"])),
            "sources": [dict(draw(_leaf_static), mesh_checks=draw(st.sampled_from(["default", "skip"])))], "observers": [obs], "field": draw(st.sampled_from(FIELDS)),
            "sumup": draw(st.booleans()), "squeeze": draw(st.booleans()), "pixel_agg": None, "in_out": "auto",
            "fault": {"kind": "none", "pos": 0, "in_coll": False, "nth": 0}, "minimal": True}


@st.composite
def oo_case(draw):
    n = draw(st.integers(1, 4))
    sources = []
    for _ in range(n):
        if draw(st.integers(0, 3)) == 0:
            sources.append(draw(trees.collection_spec(_leaf, max_depth=2, max_children=3, sensor=_sensor)))
        else:
            sources.append(draw(_leaf))
    nobs = draw(st.integers(1, 3))
    observers = []
    for _ in range(nobs):
        k = draw(st.sampled_from(["sensor", "sensor", "array", "coll"]))
        if k == "sensor":
            observers.append(draw(_sensor))
        elif k == "array":
            shape = draw(st.sampled_from([(3,), (1, 3), (2, 3), (2, 2, 3)]))
            arr = np.array([draw(gen.ufloat(-3, 3)) for _ in range(int(np.prod(shape)))]).reshape(shape)
            observers.append({"cls": "array", "value": arr.tolist(),
                              "as": draw(st.sampled_from(["ndarray", "list", "tuple"]))})
        else:
            observers.append({"cls": "Collection", "children": [draw(_sensor) for _ in range(draw(st.integers(1, 2)))],
                              "position": [[0.0, 0.0, 0.0]], "orientation": [[0.0, 0.0, 0.0, 1.0]]})
    # half of the meshes are built without their (lazy, cached) status checks: a field call must not run them either
    skip_flags = draw(st.lists(st.booleans(), min_size=12, max_size=12))

    def _mark(sp, it=iter(skip_flags)):
        if sp.get("cls") == "TriangularMesh" and next(it, False):
            sp["mesh_checks"] = "skip"
        for ch in sp.get("children", []) or []:
            _mark(ch, it)

    for sp in sources:
        _mark(sp)
    fault = draw(st.sampled_from(FAULTS))
    case = {
        "form": "oo",
        "iface": draw(st.sampled_from(["top", "top", "src_method", "sens_method", "coll_method"])),
        "sources": sources,
        "observers": observers,
        "field": draw(st.sampled_from(FIELDS)),
        "sumup": draw(st.booleans()),
        "squeeze": draw(st.booleans()),
        "pixel_agg": draw(st.sampled_from([None, None, "mean", "max"])),
        "in_out": draw(st.sampled_from(["auto", "auto", "inside", "outside"])),
        "fault": {"kind": fault, "pos": draw(st.integers(0, 5)), "in_coll": draw(st.booleans()),
                  "nth": draw(st.integers(0, 1))},
    }
    return case


FUNC_PARAMS = {
    "Cuboid": {"dimension": (3,), "polarization": (3,)},
    "Cylinder": {"dimension": (2,), "polarization": (3,)},
    "CylinderSegment": {"dimension": "seg", "polarization": (3,)},
    "Sphere": {"diameter": (), "polarization": (3,)},
    "Tetrahedron": {"vertices": (4, 3), "polarization": (3,)},
    "Triangle": {"vertices": (3, 3), "polarization": (3,)},
    "Circle": {"diameter": (), "current": ()},
    "Polyline": {"segment_start": (3,), "segment_end": (3,), "current": ()},
    "Dipole": {"moment": (3,)},
}


@st.composite
def func_case(draw):
    cls = draw(st.sampled_from(sorted(FUNC_PARAMS)))
    n = draw(st.integers(2, 4))
    params = {}
    for name, shp in FUNC_PARAMS[cls].items():
        if shp == "seg":
            vals = [draw(gen.segment_dimension()) for _ in range(n)]
        elif shp == ():
            vals = [gen.r6(draw(gen.logfloat(-1, 0.5))) for _ in range(n)]
        else:
            size = int(np.prod(shp))
            lo, hi = (0.1, 2.0) if name == "dimension" else (-1.0, 1.0)
            vals = [np.array([gen.r6(draw(gen.ufloat(lo, hi))) for _ in range(size)]).reshape(shp).tolist()
                    for _ in range(n)]
        params[name] = vals
    obs = [[gen.r6(draw(gen.ufloat(-3, 3))) for _ in range(3)] for _ in range(n)]
    pos = [[gen.r6(draw(gen.ufloat(-1, 1))) for _ in range(3)] for _ in range(n)]
    ori = [draw(gen.quaternion()) for _ in range(n)]
    return {
        "form": "functional",
        "cls": cls,
        "params": params,
        "observers": obs,
        "position": pos,
        "orientation": ori,
        "field": draw(st.sampled_from(FIELDS)),
        "squeeze": draw(st.booleans()),
        "in_out": draw(st.sampled_from(["auto", "auto", "inside", "outside"])),
        "fault": {"kind": draw(st.sampled_from(["none", "none", "none", "bad_length", "bad_name", "bad_in_out"]))},
        "dtype": draw(st.sampled_from(["float64", "float64", "int64", "list"])),
    }


def strategy(tier):
    return st.one_of(oo_case(), oo_case(), oo_case(), func_case(), minimal_case())


# ------------------------------------------------------------------------------ execution


class CountingFunc:
    """State of a custom field function with a programmable misbehaviour on its n-th field
    call.  Calls made by the constructor's validation are not counted (armed afterwards).
    `.func` is the plain function handed to CustomSource (the validator inspects argument
    names, so a callable object would be rejected)."""

    def __init__(self, mode, nth, field):
        self.mode, self.nth, self.field = mode, nth, field
        self.armed = False
        self.calls = 0
        state = self

        def field_func(field, observers):
            if not state.armed:
                return np.zeros((len(observers), 3)) if field in "BH" else None
            k = state.calls
            state.calls += 1
            if state.mode == "none_for_field":
                return None if field == state.field else np.ones((len(observers), 3))
            if k == state.nth:
                if state.mode == "raises":
                    raise RuntimeError("injected failure in custom field function")
                if state.mode == "wrong_shape":
                    return np.ones((len(observers) + 1, 3))
                if state.mode == "wrong_type":
                    return "not an array"
            return np.ones((len(observers), 3)) * 0.5

        self.func = field_func


def _inject(case, src_objs, registry):
    """Apply the fault plan to the built top-level source list.  Returns (sources, extra kwargs
    overrides, list of counting funcs, label)."""
    f = case["fault"]
    kind = f["kind"]
    overrides = {}
    funcs = []
    magpy = build.magpy

    def place(obj):
        pos = f["pos"] % (len(src_objs) + 1)
        colls = [o for o in src_objs if isinstance(o, magpy.Collection)]
        if f["in_coll"] and colls:
            colls[f["pos"] % len(colls)].add(obj)
            registry.append((obj, None))
            return src_objs
        registry.append((obj, None))
        return src_objs[:pos] + [obj] + src_objs[pos:]

    def posed(obj):
        # give the injected object its own (short) path so that it takes part in tiling
        obj.position = (0.3, -0.2, 0.1)
        return obj

    if kind == "no_dimension":
        src_objs = place(posed(magpy.magnet.Cuboid(polarization=(0.1, 0.2, 0.3))))
    elif kind == "no_excitation":
        src_objs = place(posed(magpy.magnet.Cylinder(dimension=(1, 2))))
    elif kind == "custom_no_func":
        src_objs = place(posed(magpy.misc.CustomSource()))
    elif kind in ("custom_none", "bad_field_for_custom"):
        fn = CountingFunc("none_for_field", 0, case["field"])
        funcs.append(fn)
        src_objs = place(posed(magpy.misc.CustomSource(field_func=fn.func)))
    elif kind in ("custom_raises", "custom_wrong_shape", "custom_wrong_type"):
        fn = CountingFunc(kind[len("custom_"):], f["nth"], case["field"])
        funcs.append(fn)
        src_objs = place(posed(magpy.misc.CustomSource(field_func=fn.func)))
        if f["nth"] == 1:
            # a second custom source with its own function object => a second group, so the
            # failure happens after another group was already evaluated
            fn2 = CountingFunc(kind[len("custom_"):], 0, case["field"])
            funcs.append(fn2)
            src_objs = src_objs + [posed(magpy.misc.CustomSource(field_func=fn2.func))]
            registry.append((src_objs[-1], None))
    elif kind == "bad_pixel_agg":
        overrides["pixel_agg"] = "bogus_reduction"
    elif kind == "bad_output":
        overrides["output"] = "xml"
    elif kind == "dataframe":
        overrides["output"] = "dataframe"
    elif kind == "bad_in_out":
        overrides["in_out"] = "sideways"
    elif kind == "kwargs_in_oo":
        overrides["dimension"] = (1, 2, 3)
    elif kind == "sensor_in_sources":
        s = magpy.Sensor(position=(1, 2, 3))
        registry.append((s, None))
        src_objs = src_objs + [s]
    return src_objs, overrides, funcs


def _build_observers(case, registry, arrays):
    obs = []
    for o in case["observers"]:
        if o["cls"] == "array":
            v = o["value"]
            if o["as"] == "ndarray":
                v = np.array(v, dtype=float)
                arrays.append(v)
            elif o["as"] == "tuple":
                v = _tuplify(v)
            else:
                v = copy.deepcopy(v)
                arrays.append(v)
            obs.append(v)
        else:
            obs.append(trees.build_tree(o, registry))
    return obs


def _tuplify(v):
    if isinstance(v, list):
        return tuple(_tuplify(x) for x in v)
    return v


def _snap_arrays(arrays):
    out = []
    for a in arrays:
        if isinstance(a, np.ndarray):
            out.append(build.snap_array(a))
        elif isinstance(a, R):
            out.append(build.snap_array(a.as_quat()))
        else:
            out.append(copy.deepcopy(a))
    return out


def _outcome(res):
    if res.ok:
        v = res.value
        if hasattr(v, "to_numpy"):
            num = v.select_dtypes("number").to_numpy(dtype=float)
            # text columns carry repr() of temporary Sensor objects made from position arrays
            # (their id changes per call); only numbers and column names are compared
            return ("df", v.shape, num.tobytes(), tuple(v.columns))
        v = np.asarray(v)
        return ("ok", v.shape, v.tobytes())
    return ("exc", type(res.exc).__name__)


def _run_oo(case, ctx):
    magpy = build.magpy
    registry = []
    arrays = []
    src_objs = [trees.build_tree(s, registry) for s in case["sources"]]
    observers = _build_observers(case, registry, arrays)
    f = case["fault"]
    src_objs, overrides, funcs = _inject(case, src_objs, registry)
    if f["kind"] == "pixel_mismatch":
        s1 = magpy.Sensor(pixel=[(0, 0, 0), (0, 0, 1)])
        s2 = magpy.Sensor(pixel=[(0, 0, 0), (0, 0, 1), (1, 0, 0)], position=[(0, 0, 0), (1, 1, 1)])
        registry += [(s1, None), (s2, None)]
        observers = observers + [s1, s2]
        overrides["pixel_agg"] = None
    if f["kind"] == "empty_sources":
        src_objs = []
    if f["kind"] == "bad_observers":
        bad = [np.array([1.0, 2.0]), "abc", np.zeros((2, 2)), [[1, 2, 3], [1, 2]], None][f["pos"] % 5]
        observers = observers + [bad] if f["in_coll"] else [bad]

    kw = {"sumup": case["sumup"], "squeeze": case["squeeze"], "pixel_agg": case["pixel_agg"],
          "in_out": case["in_out"]}
    kw.update(overrides)
    if kw.get("pixel_agg") is None:
        # different pixel shapes without pixel_agg is itself the 'pixel_mismatch' fault; in other
        # plans keep the call valid by aggregating when shapes differ
        pass

    fname = "get" + case["field"]
    iface = case["iface"]
    if iface == "top" or not src_objs:
        def do():
            return getattr(magpy, fname)(src_objs, observers, **kw)
    elif iface == "src_method":
        k0 = {k: v for k, v in kw.items() if k != "sumup"}
        if isinstance(src_objs[0], magpy.Collection):
            k0.pop("in_out", None)  # Collection.getX has no in_out parameter

        def do():
            return getattr(src_objs[0], fname)(*observers, **k0)
    elif iface == "sens_method":
        sens = [o for o in observers if isinstance(o, magpy.Sensor)]
        if not sens:
            def do():
                return getattr(magpy, fname)(src_objs, observers, **kw)
        else:
            k0 = {k: v for k, v in kw.items()}

            def do():
                return getattr(sens[0], fname)(*src_objs, **k0)
    else:
        with build.quiet():
            coll = magpy.Collection(*[o for o in src_objs if not isinstance(o, magpy.Sensor)
                                      and getattr(o, "_parent", None) is None] or [])
        registry.append((coll, None))
        # Collection.getX has no `in_out` / `sumup` parameter (see its signature and docstring)
        k0 = {k: v for k, v in kw.items() if k not in ("sumup", "in_out")}

        def do():
            return getattr(coll, fname)(*observers, **k0)

    for fn in funcs:
        fn.armed = True
        fn.calls = 0

    objs = [o for o, _ in registry]
    before = [build.snapshot_obj(o) for o in objs]
    arr_before = _snap_arrays(arrays)
    lens = [len(o._position) for o in objs if not isinstance(o, magpy.Collection)]  # pylint: disable=protected-access
    tiled = len(set(lens)) > 1 and max(lens) > 1

    res1 = build.call(do)
    after = [build.snapshot_obj(o) for o in objs]
    arr_after = _snap_arrays(arrays)

    ctx.label(f"fault:{f['kind']}")
    ctx.label(f"iface:{iface}")
    ctx.label("outcome:" + ("returned" if res1.ok else type(res1.exc).__name__))
    ctx.label("tiling:" + ("yes" if tiled else "no"))
    if tiled:
        ctx.mark_nontrivial(case)
        ctx.sample(case, nontrivial=True)
    else:
        ctx.sample(case)

    out = []
    outcome = "returned" if res1.ok else "raised"
    for o, b, a in zip(objs, before, after):
        d = build.diff_snap(b, a)
        if d:
            out.append(Violation(
                {"sub": "object_changed", "outcome": outcome, "attrs": d,
                 "obj": "Collection" if isinstance(o, magpy.Collection) else ("Sensor" if isinstance(o, magpy.Sensor) else "source")},
                f"{type(o).__name__} changed {d} after call that {outcome}"
                + ("" if res1.ok else f" {type(res1.exc).__name__}: {str(res1.exc)[:120]}")
                + f"; path length before/after: {_plen(b)}/{_plen(a)}",
            ))
            break
    if arr_before != arr_after:
        out.append(Violation({"sub": "caller_array_changed", "outcome": outcome, "form": "oo"},
                             "observer array passed by the caller was modified"))
    # documented-valid call must not raise a foreign exception
    if not res1.ok and f["kind"] in ("none", "dataframe") and not _expected_reject(case, res1.exc):
        out.append(Violation({"sub": "valid_call_raised", **exc_sig(res1.exc)}, repr(res1.exc)[:300]))

    # second identical call
    for fn in funcs:
        fn.calls = 0
    res2 = build.call(do)
    o1, o2 = _outcome(res1), _outcome(res2)
    if o1 != o2:
        same = False
        if o1[0] == o2[0] == "ok" and o1[1] == o2[1]:
            a1 = np.frombuffer(o1[2], dtype=float)
            a2 = np.frombuffer(o2[2], dtype=float)
            same = bool(np.array_equal(a1, a2, equal_nan=True))
        if not same:
            out.append(Violation({"sub": "second_call_differs", "first": o1[0], "second": o2[0], "fault": f["kind"]},
                                 f"first outcome {o1[:2]}, second {o2[:2]}"))
    after2 = [build.snapshot_obj(o) for o in objs]
    if not out:
        for o, b, a in zip(objs, before, after2):
            d = build.diff_snap(b, a)
            if d:
                out.append(Violation({"sub": "object_changed_second_call", "attrs": d},
                                     f"{type(o).__name__} changed {d} after the second call"))
                break
    return out


def _plen(snap):
    p = snap.get("position")
    return p[1][0] if p else None


def _expected_reject(case, exc):
    """Valid-looking configurations that the documentation says are rejected."""
    name = type(exc).__name__
    if name in ("MagpylibBadUserInput", "MagpylibMissingInput"):
        return True
    return False


def _run_functional(case, ctx):
    magpy = build.magpy
    cls = case["cls"]
    arrays = []
    kw = {}

    def conv(v):
        if case["dtype"] == "list":
            v = copy.deepcopy(v)
        elif case["dtype"] == "int64" and False:
            v = np.array(v)
        else:
            v = np.array(v, dtype=float)
        arrays.append(v)
        return v

    for name, vals in case["params"].items():
        kw[name] = conv(vals)
    obs = conv(case["observers"])
    kw["position"] = conv(case["position"])
    ori = R.from_quat(np.array(case["orientation"], dtype=float))
    arrays.append(ori)
    kw["orientation"] = ori
    kw["squeeze"] = case["squeeze"]
    kw["in_out"] = case["in_out"]
    fk = case["fault"]["kind"]
    if fk == "bad_length":
        first = sorted(case["params"])[0]
        kw[first] = conv(case["params"][first] + case["params"][first][:1] + case["params"][first][:1])
    elif fk == "bad_name":
        kw["bogus_parameter"] = conv([1.0, 2.0])
    elif fk == "bad_in_out":
        kw["in_out"] = "sideways"
    fname = "get" + case["field"]

    def do():
        return getattr(magpy, fname)(cls, obs, **kw)

    before = _snap_arrays(arrays)
    res1 = build.call(do)
    after = _snap_arrays(arrays)
    ctx.label(f"functional:{cls}")
    ctx.label(f"fault:functional_{fk}")
    ctx.label("outcome:" + ("returned" if res1.ok else type(res1.exc).__name__))
    if case["dtype"] != "list":
        ctx.mark_nontrivial(case)
        ctx.sample(case, nontrivial=True)
    out = []
    if before != after:
        changed = [i for i, (b, a) in enumerate(zip(before, after)) if b != a]
        names = list(case["params"]) + ["observers", "position", "orientation"]
        out.append(Violation({"sub": "caller_array_changed", "form": "functional", "cls": cls,
                              "param": [names[i] if i < len(names) else "extra" for i in changed]},
                             f"caller-owned input of getX('{cls}', ...) was modified in place"))
    res2 = build.call(do)
    o1, o2 = _outcome(res1), _outcome(res2)
    if o1 != o2:
        same = False
        if o1[0] == o2[0] == "ok" and o1[1] == o2[1]:
            same = bool(np.array_equal(np.frombuffer(o1[2]), np.frombuffer(o2[2]), equal_nan=True))
        if not same:
            out.append(Violation({"sub": "second_call_differs", "form": "functional", "cls": cls},
                                 f"first {o1[:2]}, second {o2[:2]}"))
    return out


def run_case(case, ctx):
    if case["form"] == "functional":
        return _run_functional(case, ctx)
    return _run_oo(case, ctx)
