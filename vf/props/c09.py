"""C09  move / rotate and the pose setters follow the documented path semantics.

(i) exhaustive small scope (enumerate_cases): old path length 1..4 x input {scalar, vector 1..4}
    x start in {'auto'} u [-9,9] x {move, rotate with anchor None/0/single/per-step of length
    equal, shorter, longer}
(ii) state machine over one object: every operation and rotate_from_* form, the setters,
    reset_path and rejected calls, compared after every step with the reference model of
    vf/pathmodel.py.
"""
from __future__ import annotations

import itertools

import numpy as np
from hypothesis import strategies as st
from hypothesis.stateful import initialize, precondition, rule
from scipy.spatial.transform import Rotation as R

from vf import build, gen, machine, pathmodel
from vf.core import Violation, exc_sig

ID = "C09"
LEVEL = "exploration"
TECHNIQUE = "model-based stateful property testing (Hypothesis RuleBasedStateMachine) + exhaustive small-scope enumeration against a reference model"
RULE = (
    "exhaustive sub-space: (old path length 1..4) x (input scalar | vector of length 1..4) x (start 'auto' or -9..9) "
    "x (move | rotate with anchor None, 0, single, per-step of length n-1, n, n+1) on a generic asymmetric path, each "
    "compared with the reference model. Histories: one object (Sensor or a source), 1-25 steps drawn from move, "
    "rotate, rotate_from_{angax,rotvec,euler,matrix,mrp,quat} (scalar and vector input, degrees both ways, string and "
    "vector axes, intrinsic and extrinsic sequences), position=, orientation=, reset_path, and rejected calls (wrong "
    "shapes/types for each argument). non-trivial step = needs padding in front or behind, or negative start, or "
    "per-step anchors of another length than the rotation, or follows >= 2 earlier steps; a history counts when it "
    "has such a step; distinct = canonical hash of the history / enumerated tuple"
)
ASSUMPTIONS = [
    "reference model written from the documentation (vf/pathmodel.py); SciPy Rotation trusted for rotation algebra",
    "positions compared at 1e-9 of the path scale, orientations by the rotation angle of the quotient < 1e-9 rad",
    "a rejected call = raises MagpylibBadUserInput (or the scipy error for malformed rotation numbers) and leaves both paths byte-identical",
]
CASE_TIMEOUT = 30
MAX_PATH = 40


def budget(tier):
    return {"examples": 1600 if tier == "quick" else 40000, "steps": 25}


# ------------------------------------------------------------------------- enumeration

_BASE_POS = [[0.3, -1.1, 0.7], [1.9, 0.4, -0.6], [-0.8, 2.2, 1.3], [0.5, 0.9, -2.1]]
_BASE_Q = [R.from_rotvec(v).as_quat().tolist() for v in ([0.2, -0.5, 0.9], [1.1, 0.3, -0.4], [-0.7, 0.8, 0.2], [0.1, 1.3, 0.6])]
_IN_VEC = [[0.11, 0.23, -0.37], [-0.41, 0.17, 0.29], [0.53, -0.61, 0.13], [0.07, 0.47, 0.59]]
_IN_ROT = [[0.3, 0.1, -0.2], [-0.5, 0.4, 0.3], [0.2, -0.6, 0.7], [0.9, 0.2, 0.1]]
_ANCH = [[0.7, -0.3, 0.2], [-1.2, 0.5, 0.9], [0.4, 1.4, -0.8], [1.1, -0.9, 0.3], [-0.2, 0.6, 1.5]]


def enumerate_cases(tier):
    starts = ["auto"] + list(range(-9, 10))
    for n_old, n_in, start in itertools.product(range(1, 5), [0, 1, 2, 3, 4], starts):
        init = {"cls": "Sensor", "position": _BASE_POS[:n_old], "orientation": _BASE_Q[:n_old]}
        disp = _IN_VEC[0] if n_in == 0 else _IN_VEC[:n_in]
        yield {"init": init, "ops": [{"op": "move", "disp": disp, "start": start}], "enumerated": True}
        rotv = _IN_ROT[0] if n_in == 0 else _IN_ROT[:n_in]
        n_eff = max(n_in, 1)
        anchors = [None, 0, _ANCH[0], _ANCH[:n_eff]]
        if n_eff > 1:
            anchors.append(_ANCH[: n_eff - 1])
        anchors.append(_ANCH[: n_eff + 1])
        for a in anchors:
            yield {"init": init, "enumerated": True,
                   "ops": [{"op": "rotate", "form": {"kind": "rotvec", "rotvec": rotv, "degrees": False}, "anchor": a, "start": start}]}


# ------------------------------------------------------------------------- interpreter


class State:
    def __init__(self, init):
        self.obj = build.build_sensor(init) if init["cls"] == "Sensor" else build.build_source(init)
        self.model = pathmodel.PathModel(init["position"], init["orientation"])
        self.nsteps = 0
        self.nt = False


def new_state(init):
    return State(init)


def _paths(obj):
    return obj._position.copy(), obj._orientation.as_quat().copy()  # pylint: disable=protected-access


def _compare(state, op, out):
    obj, mod = state.obj, state.model
    pos, quat = _paths(obj)
    kind = op["op"] + (":" + op["form"]["kind"] if "form" in op else "")
    if len(pos) != len(quat) or len(pos) < 1:
        out.append(Violation({"sub": "path_length_invariant", "op": kind},
                             f"len(position path)={len(pos)} len(orientation path)={len(quat)} after {op}"))
        return
    if len(pos) != len(mod):
        out.append(Violation({"sub": "path_length", "op": kind, "start_kind": _start_kind(op)},
                             f"path length {len(pos)}, documented semantics give {len(mod)} after {op}"))
        return
    scale = max(1.0, float(np.max(np.abs(mod.pos))))
    dp = float(np.max(np.abs(pos - mod.pos)))
    if not dp <= 1e-9 * scale:
        i = int(np.argmax(np.max(np.abs(pos - mod.pos), axis=1)))
        out.append(Violation({"sub": "position", "op": kind, "start_kind": _start_kind(op), "anchor": _anchor_kind(op)},
                             f"position path differs from model by {dp:.3g} at index {i} of {len(pos)} after {op}: "
                             f"lib {pos[i].tolist()} model {mod.pos[i].tolist()}"))
    ang = (R.from_quat(quat) * mod.rot.inv()).magnitude()
    da = float(np.max(ang))
    if not da <= 1e-9:
        i = int(np.argmax(ang))
        out.append(Violation({"sub": "orientation", "op": kind, "start_kind": _start_kind(op)},
                             f"orientation path differs from model by {da:.3g} rad at index {i} of {len(pos)} after {op}"))


def _start_kind(op):
    s = op.get("start", "auto")
    if s == "auto":
        return "auto"
    return "negative" if s < 0 else "nonneg"


def _anchor_kind(op):
    a = op.get("anchor", None)
    if a is None:
        return "none"
    if np.isscalar(a):
        return "zero"
    return "single" if np.ndim(a) == 1 else "per_step"


def _call_form(obj, form, anchor, start):
    k = form["kind"]
    kw = {"anchor": anchor, "start": start}
    if k == "rotate":
        rot = None if form["quat"] is None else R.from_quat(np.asarray(form["quat"], dtype=float))
        return obj.rotate(rot, **kw)
    if k == "quat":
        return obj.rotate_from_quat(form["quat"], **kw)
    if k == "angax":
        return obj.rotate_from_angax(form["angle"], form["axis"], degrees=form["degrees"], **kw)
    if k == "rotvec":
        return obj.rotate_from_rotvec(form["rotvec"], degrees=form["degrees"], **kw)
    if k == "euler":
        return obj.rotate_from_euler(form["angle"], form["seq"], degrees=form["degrees"], **kw)
    if k == "matrix":
        return obj.rotate_from_matrix(form["matrix"], **kw)
    if k == "mrp":
        return obj.rotate_from_mrp(form["mrp"], **kw)
    raise ValueError(k)


def _bad_call(obj, op):
    """perform a call that the documentation says is rejected"""
    w = op["what"]
    v = op.get("value")
    if w == "move_shape":
        return obj.move(v)
    if w == "move_start":
        return obj.move((1, 2, 3), start=v)
    if w == "rotate_type":
        return obj.rotate(v)
    if w == "rotate_anchor":
        return obj.rotate(R.from_rotvec((0.1, 0.2, 0.3)), anchor=v)
    if w == "rotate_start":
        return obj.rotate(R.from_rotvec((0.1, 0.2, 0.3)), start=v)
    if w == "angax_axis":
        return obj.rotate_from_angax(30, v)
    if w == "angax_angle":
        return obj.rotate_from_angax(v, "z")
    if w == "angax_degrees":
        return obj.rotate_from_angax(30, "z", degrees=v)
    if w == "set_position":
        obj.position = v
        return None
    if w == "set_orientation":
        obj.orientation = v
        return None
    if w == "move_empty":
        return obj.move(np.zeros((0, 3)))
    if w == "position_empty":
        obj.position = np.zeros((0, 3))
        return None
    if w == "orientation_empty":
        obj.orientation = R.from_quat(np.zeros((0, 4)))
        return None
    if w == "rotate_empty":
        return obj.rotate(R.from_quat(np.zeros((0, 4))))
    raise ValueError(w)


def apply_op(state, op, ctx):
    obj, mod = state.obj, state.model
    out = []
    kind = op["op"]
    ctx.label("op:" + kind + (":" + op["form"]["kind"] if "form" in op else "") + (":" + op["what"] if kind == "bad" else ""))
    before = _paths(obj)
    nt = state.nsteps >= 2
    if kind == "bad":
        r = build.call(_bad_call, obj, op)
        after = _paths(obj)
        unspecified = op["what"] in ("move_empty", "rotate_empty")  # zero operations: accept-without-effect or reject
        if r.ok and not unspecified:
            out.append(Violation({"sub": "bad_call_accepted", "what": op["what"]},
                                 f"call that the documentation rejects was accepted: {op}; path length now {len(after[0])}"))
        elif not r.ok:
            name = type(r.exc).__name__
            if name not in ("MagpylibBadUserInput", "MagpylibMissingInput", "ValueError", "TypeError"):
                out.append(Violation({"sub": "bad_call_exception", "what": op["what"], "exc": name}, repr(r.exc)[:200]))
        changed = before[0].tobytes() != after[0].tobytes() or before[1].tobytes() != after[1].tobytes()
        if changed and unspecified and r.ok and before[0].shape == after[0].shape and before[1].shape == after[1].shape:
            # a zero-length operation that is accepted may re-create the orientation object (quaternions
            # re-normalised in the last bit); only a real change of the path counts
            changed = not (np.array_equal(before[0], after[0])
                           and float(np.max((R.from_quat(after[1]) * R.from_quat(before[1]).inv()).magnitude())) < 1e-12)
        if changed:
            out.append(Violation({"sub": "rejected_call_changed_path", "what": op["what"], "raised": not r.ok},
                                 f"paths changed by a rejected call {op}: length {len(before[0])} -> {len(after[0])}"))
            # resynchronise the model so that later steps stay comparable
            state.model = pathmodel.PathModel(after[0], after[1]) if len(after[0]) and len(after[0]) == len(after[1]) else state.model
        state.nsteps += 1
        return out
    if kind == "move":
        r = build.call(obj.move, np.asarray(op["disp"], dtype=float) if op.get("as_array") else op["disp"], start=op["start"])
        pad = mod.move(op["disp"], op["start"])
    elif kind == "rotate":
        rot = pathmodel.rotation_from_form(op["form"])
        r = build.call(_call_form, obj, op["form"], op["anchor"], op["start"])
        pad = mod.rotate(rot, op["anchor"], op["start"])
        a = op["anchor"]
        if a is not None and not np.isscalar(a) and np.ndim(a) == 2:
            nrot = 1 if rot is None or rot.single else len(rot)
            if len(a) != nrot:
                nt = True
                ctx.label("nt:per_step_anchor_other_length")
    elif kind == "set_position":
        def f():
            obj.position = op["value"]
        r = build.call(f)
        mod.set_position(op["value"])
        pad = (0, 0)
    elif kind == "set_orientation":
        def f():
            obj.orientation = None if op["quat"] is None else R.from_quat(np.asarray(op["quat"], dtype=float))
        r = build.call(f)
        mod.set_orientation(op["quat"])
        pad = (0, 0)
    elif kind == "reset_path":
        r = build.call(obj.reset_path)
        mod.reset()
        pad = (0, 0)
    else:
        raise ValueError(kind)
    if not r.ok:
        out.append(Violation({"sub": "valid_call_raised", "op": kind + (":" + op["form"]["kind"] if "form" in op else ""), **exc_sig(r.exc)},
                             f"{op}: {type(r.exc).__name__}: {str(r.exc)[:200]}"))
        state.model = pathmodel.PathModel(*_paths(obj)) if len(obj._position) else state.model  # pylint: disable=protected-access
        return out
    if pad[0] or pad[1]:
        nt = True
        ctx.label("nt:padding_front" if pad[0] else "nt:padding_behind")
    if op.get("start", "auto") != "auto" and op["start"] < 0:
        nt = True
        ctx.label("nt:negative_start")
    _compare(state, op, out)
    if out:
        # keep going from the library's state
        p, q = _paths(obj)
        if len(p) == len(q) >= 1:
            state.model = pathmodel.PathModel(p, q)
    state.nsteps += 1
    state.nt = state.nt or nt
    return out


def finish(state, init, ops, ctx):
    case = {"init": init, "ops": ops}
    if state.nt:
        ctx.mark_nontrivial(case)
        ctx.sample(case, nontrivial=True)
    else:
        ctx.sample(case)


def run_case(case, ctx):
    if case.get("enumerated"):
        ctx.extra["exhaustive_subspace"] = True
    import sys  # pylint: disable=import-outside-toplevel

    return machine.replay_history(sys.modules[__name__], case, ctx)


# ------------------------------------------------------------------------- machine

_vec3 = st.lists(gen.ufloat(-2, 2).map(gen.r6), min_size=3, max_size=3)
_start = st.one_of(st.just("auto"), st.just("auto"), st.integers(-9, 9))


@st.composite
def _anchor(draw, n_rot):
    k = draw(st.sampled_from(["none", "none", "zero", "single", "per_step"]))
    if k == "none":
        return None
    if k == "zero":
        return 0
    if k == "single":
        return draw(_vec3)
    m = draw(st.sampled_from([n_rot, n_rot, max(1, n_rot - 1), n_rot + 1, 1, 2]))
    return [draw(_vec3) for _ in range(m)]


@st.composite
def _rot_form(draw):
    kind = draw(st.sampled_from(["rotate", "quat", "angax", "rotvec", "euler", "matrix", "mrp"]))
    n = draw(st.sampled_from([0, 0, 1, 2, 3, 4]))  # 0 = scalar input
    if kind in ("rotate", "quat"):
        if kind == "rotate" and draw(st.integers(0, 9)) == 0:
            return {"kind": "rotate", "quat": None}, 1
        q = draw(gen.quaternion(pool=True)) if n == 0 else [draw(gen.quaternion(pool=False)) for _ in range(n)]
        return {"kind": kind, "quat": q}, max(n, 1)
    if kind == "angax":
        ax = draw(st.one_of(st.sampled_from(["x", "y", "z"]), _vec3.filter(lambda v: sum(abs(x) for x in v) > 0.1)))
        deg = draw(st.booleans())
        lim = 360.0 if deg else 6.0
        ang = gen.r6(draw(gen.ufloat(-lim, lim))) if n == 0 else [gen.r6(draw(gen.ufloat(-lim, lim))) for _ in range(n)]
        if n == 0 and draw(st.booleans()):
            ang = int(ang)
        return {"kind": "angax", "angle": ang, "axis": ax, "degrees": deg}, max(n, 1)
    if kind == "rotvec":
        deg = draw(st.booleans())
        s = 90.0 if deg else 1.5
        mk = lambda: [gen.r6(draw(gen.ufloat(-s, s))) for _ in range(3)]  # noqa: E731
        return {"kind": "rotvec", "rotvec": mk() if n == 0 else [mk() for _ in range(n)], "degrees": deg}, max(n, 1)
    if kind == "euler":
        seq = draw(st.sampled_from(["x", "y", "z", "xy", "zx", "xyz", "zyx", "zxz", "X", "Z", "XY", "XYZ", "ZYX", "ZXZ", "YXY"]))
        deg = draw(st.booleans())
        lim = 170.0 if deg else 2.9
        k = len(seq)
        one = lambda: [gen.r6(draw(gen.ufloat(-lim, lim))) for _ in range(k)]  # noqa: E731
        if k == 1:
            ang = one()[0] if n == 0 else [one()[0] for _ in range(n)]
        else:
            # middle angle of a 3-axis sequence away from the gimbal-lock values
            ang = one() if n == 0 else [one() for _ in range(n)]
        return {"kind": "euler", "seq": seq, "angle": ang, "degrees": deg}, max(n, 1)
    if kind == "matrix":
        mk = lambda: R.from_quat(draw(gen.quaternion(pool=False))).as_matrix().tolist()  # noqa: E731
        return {"kind": "matrix", "matrix": mk() if n == 0 else [mk() for _ in range(n)]}, max(n, 1)
    mk = lambda: [gen.r6(draw(gen.ufloat(-0.9, 0.9))) for _ in range(3)]  # noqa: E731
    return {"kind": "mrp", "mrp": mk() if n == 0 else [mk() for _ in range(n)]}, max(n, 1)


BAD = [
    ("move_shape", [1.0, 2.0]), ("move_shape", [[1.0, 2.0]]), ("move_shape", "abc"), ("move_shape", None), ("move_shape", 5.0),
    ("move_shape", [[[1.0, 2.0, 3.0]]]), ("move_start", 1.5), ("move_start", "end"), ("move_start", None),
    ("rotate_type", [0.0, 0.0, 0.0, 1.0]), ("rotate_type", "z"), ("rotate_type", 45),
    ("rotate_anchor", [1.0, 2.0]), ("rotate_anchor", "origin"), ("rotate_anchor", 1), ("rotate_anchor", [[1.0, 2.0, 3.0, 4.0]]),
    ("rotate_start", 0.5), ("rotate_start", [0]),
    ("angax_axis", "w"), ("angax_axis", [0.0, 0.0, 0.0]), ("angax_axis", [1.0, 0.0]), ("angax_axis", 1),
    ("angax_angle", "ninety"), ("angax_angle", [[10.0, 20.0]]), ("angax_degrees", "yes"), ("angax_degrees", 1),
    ("set_position", [1.0, 2.0]), ("set_position", "here"), ("set_position", [[1.0, 2.0, 3.0, 4.0]]), ("set_position", None),
    ("set_orientation", [0.0, 0.0, 0.0, 1.0]), ("set_orientation", "upright"), ("set_orientation", 3),
    ("move_empty", None), ("position_empty", None), ("orientation_empty", None), ("rotate_empty", None),
]


class PathMachine(machine.VMachine):
    @initialize(data=st.data())
    def setup(self, data):
        cls = data.draw(st.sampled_from(["Sensor", "Sensor", "Cuboid", "Circle", "Dipole"]))
        pp = data.draw(gen.pose_path(max_len=4, extent=2.0))
        if cls == "Sensor":
            init = {"cls": "Sensor", "pixel": None, "handedness": "right", **pp}
        else:
            init = data.draw(gen.source_spec(classes=[cls], max_path=1, L=1.0))
            init.update(pp)
        self.start(init)

    def _short(self):
        return self.state is not None and len(self.state.model) <= MAX_PATH

    @precondition(lambda self: self._short())
    @rule(n=st.sampled_from([0, 0, 1, 2, 3, 4]), data=st.data(), start=_start, as_array=st.booleans())
    def move(self, n, data, start, as_array):
        disp = data.draw(_vec3) if n == 0 else [data.draw(_vec3) for _ in range(n)]
        self.do({"op": "move", "disp": disp, "start": start, "as_array": as_array})

    @precondition(lambda self: self._short())
    @rule(fr=_rot_form(), data=st.data(), start=_start)
    def rotate(self, fr, data, start):
        form, n = fr
        self.do({"op": "rotate", "form": form, "anchor": data.draw(_anchor(n)), "start": start})

    @rule(n=st.integers(1, 4), data=st.data())
    def set_position(self, n, data):
        v = data.draw(_vec3) if n == 1 and data.draw(st.booleans()) else [data.draw(_vec3) for _ in range(n)]
        self.do({"op": "set_position", "value": v})

    @rule(n=st.integers(0, 4), data=st.data())
    def set_orientation(self, n, data):
        if n == 0:
            q = None
        elif n == 1 and data.draw(st.booleans()):
            q = data.draw(gen.quaternion())
        else:
            q = [data.draw(gen.quaternion()) for _ in range(n)]
        self.do({"op": "set_orientation", "quat": q})

    @rule()
    def reset_path(self):
        self.do({"op": "reset_path"})

    @rule(k=st.integers(0, len(BAD) - 1))
    def bad(self, k):
        self.do({"op": "bad", "what": BAD[k][0], "value": BAD[k][1]})


def make_machine(tier, sess):
    import sys  # pylint: disable=import-outside-toplevel

    return machine.bind(PathMachine, sys.modules[__name__], sess)
