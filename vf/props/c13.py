"""C13  A body gives the same field however it is represented or subdivided.

Differential / metamorphic relations between classes and partitions:
  cuboid = sum of sub-cuboids = TriangularMesh (four constructors) = sum of tetrahedra = closed
  set of Triangle sheets (H; B outside); tetrahedron = its 4-face mesh; cylinder = full-angle
  CylinderSegment = sum of radial/angular/axial segments; sphere (outside) = dipole with
  moment M*V; inscribed n-gon Polyline -> Circle with error ~ 1/n^2;
  TriangularMesh.to_TriangleCollection preserves H (posed mesh with a path).
"""
from __future__ import annotations

import numpy as np
from hypothesis import strategies as st
from scipy.spatial.transform import Rotation as R

from vf import build, gen, geom
from vf.core import Violation, exc_sig
from vf.props import c01

ID = "C13"
LEVEL = "exploration"
TECHNIQUE = "differential / metamorphic property-based testing between representations and partitions of one body (Hypothesis)"
RULE = (
    "case = relation kind (cuboid_parts, cuboid_mesh, cuboid_tetra, cuboid_triangles, tetra_mesh, cylinder_segment, "
    "cylinder_parts, sphere_dipole, ngon_circle, mesh_to_triangles) x generated geometry, polarization, cut positions "
    "(1-3 cuts per axis / 1-3 radial, angular, axial cuts), generic pose x 2-6 observers by region of the whole body "
    "with clearance 1e-3 L from the surfaces of the whole and of every part. non-trivial = >= 3 parts, or an observer "
    "inside the body, or a generic (non-identity) pose; distinct = canonical hash"
)
ASSUMPTIONS = [
    "allowance per observer = sum over the involved sources of (C01 envelope of its class at that observer) x (its field magnitude) + 1e-9 of the polarization scale",
    "observers closer than 1e-3 L to any cut plane or part surface are dropped by the generator (re-checked with the harness distance functions)",
]
CASE_TIMEOUT = 60
KINDS = ["cuboid_parts", "cuboid_mesh", "cuboid_tetra", "cuboid_triangles", "tetra_mesh", "cylinder_segment", "cylinder_parts",
         "sphere_dipole", "ngon_circle", "mesh_to_triangles"]


def budget(tier):
    return {"examples": 5000 if tier == "quick" else 100000}


@st.composite
def _cuts(draw, lo, hi, nmax=3, margin=0.08):
    n = draw(st.integers(1, nmax))
    fr = sorted(draw(st.lists(gen.ufloat(margin, 1 - margin), min_size=n, max_size=n, unique=True)))
    out = []
    for f in fr:
        v = gen.r6(lo + f * (hi - lo))
        if not out or v - out[-1] > margin * (hi - lo) * 0.5:
            out.append(v)
    return out


@st.composite
def case_strategy(draw):
    kind = draw(st.sampled_from(KINDS))
    pose = draw(gen.pose_path(max_len=1, extent=2.0))
    if draw(st.integers(0, 3)) == 0:
        pose = {"position": [[0.0, 0.0, 0.0]], "orientation": [[0.0, 0.0, 0.0, 1.0]], "path_kind": "static"}
    pol = draw(gen.excitation_vec())
    case = {"kind": kind, "pose": pose, "polarization": pol, "field": draw(st.sampled_from(["B", "H", "B", "H", "J"]))}
    if kind.startswith("cuboid"):
        dim = [gen.r6(draw(gen.logfloat(-0.7, 0.0))) for _ in range(3)]
        case["dimension"] = dim
        whole = {"cls": "Cuboid", "dimension": dim, "polarization": pol, **pose}
        if kind == "cuboid_parts":
            case["cuts"] = [draw(_cuts(-d / 2, d / 2)) if draw(st.booleans()) or ax == 0 else [] for ax, d in enumerate(dim)]
            case["parts_as"] = draw(st.sampled_from(["cuboid", "cuboid", "mesh"]))  # sub-cuboids, or each of them as a TriangularMesh box
        if kind == "cuboid_mesh":
            case["ctor"] = draw(st.sampled_from(["convexhull", "direct", "from_mesh", "from_triangles"]))
            case["flip"] = draw(st.lists(st.booleans(), min_size=12, max_size=12))
        if kind == "cuboid_tetra":
            case["split"] = draw(st.sampled_from([5, 6]))
    elif kind == "tetra_mesh":
        whole = {"cls": "Tetrahedron", "vertices": draw(gen.tetra_vertices()), "polarization": pol, **pose}
        case["vertices"] = whole["vertices"]
    elif kind in ("cylinder_segment", "cylinder_parts"):
        d, h = gen.r6(draw(gen.logfloat(-0.5, 0.0))), gen.r6(draw(gen.logfloat(-0.7, 0.0)))
        case["dimension"] = [d, h]
        whole = {"cls": "Cylinder", "dimension": [d, h], "polarization": pol, **pose}
        case["phi0"] = gen.r6(draw(gen.ufloat(-360.0, 0.0)))
        if kind == "cylinder_parts":
            case["rcuts"] = draw(_cuts(0.0, d / 2)) if draw(st.booleans()) else []
            case["pcuts"] = draw(_cuts(case["phi0"], case["phi0"] + 360.0, margin=0.05)) if draw(st.booleans()) else []
            case["zcuts"] = draw(_cuts(-h / 2, h / 2)) if draw(st.booleans()) else []
            if not (case["rcuts"] or case["pcuts"] or case["zcuts"]):
                case["pcuts"] = draw(_cuts(case["phi0"], case["phi0"] + 360.0, margin=0.05))
    elif kind == "sphere_dipole":
        dia = gen.r6(draw(gen.logfloat(-0.7, 0.3)))
        case["diameter"] = dia
        whole = {"cls": "Sphere", "diameter": dia, "polarization": pol, **pose}
    elif kind == "ngon_circle":
        dia = gen.r6(draw(gen.logfloat(-0.5, 0.3)))
        case["diameter"] = dia
        case["current"] = gen.r6(draw(gen.ufloat(0.5, 5.0)))
        case["n"] = draw(st.sampled_from([16, 32, 64, 128, 256, 512]))
        whole = {"cls": "Circle", "diameter": dia, "current": case["current"], **pose}
    else:  # mesh_to_triangles
        g = draw(gen.mesh_geometry(L=1.0))
        pp = draw(gen.pose_path(max_len=3, extent=2.0))
        whole = {"cls": "TriangularMesh", "vertices": g["vertices"], "faces": g["faces"], "polarization": pol, **pp}
        case["mesh"] = {"vertices": g["vertices"], "faces": g["faces"]}
        case["pose"] = pp
    regions = None
    if kind == "sphere_dipole":
        regions = ["near_out", "generic", "far", "generic"]
    if kind == "ngon_circle":
        regions = ["generic", "near_axis", "axis_exact", "far", "base_plane"]
    obs = draw(gen.region_observers(whole, n_min=2, n_max=6, regions=regions, clear=1e-2 if kind == "ngon_circle" else 1e-3))
    case["observers"] = obs
    case["one_call"] = draw(st.booleans())  # additionally sum the parts in one library call (list of sources, sumup=True)
    return case


def strategy(tier):
    return case_strategy()


# --------------------------------------------------------------------------------------


def _place(local_offset, pose):
    """pose of a part whose local origin sits at `local_offset` in the frame of the whole"""
    p = np.asarray(pose["position"][0], dtype=float)
    r = R.from_quat(pose["orientation"][0])
    return {"position": [(p + r.apply(local_offset)).tolist()], "orientation": [list(pose["orientation"][0])]}


def _tets_of_box(dim, split):
    a, b, c = (x / 2 for x in dim)
    V = np.array([[sx * a, sy * b, sz * c] for sx in (-1, 1) for sy in (-1, 1) for sz in (-1, 1)])
    # index = 4*ix + 2*iy + iz
    if split == 6:  # Kuhn: along the main diagonal 0-7
        paths = [(1, 3), (1, 5), (2, 3), (2, 6), (4, 5), (4, 6)]
        return [V[[0, p, q, 7]].tolist() for p, q in paths]
    return [V[t].tolist() for t in ([0, 1, 2, 4], [3, 1, 2, 7], [5, 1, 4, 7], [6, 2, 4, 7], [1, 2, 4, 7])]


def build_sides(case):
    """-> (whole_spec, [part specs or objects], compare_inside: bool, what)"""
    magpy = build.magpy
    kind, pose, pol = case["kind"], case["pose"], case["polarization"]
    if kind == "cuboid_parts":
        dim = case["dimension"]
        whole = {"cls": "Cuboid", "dimension": dim, "polarization": pol, **pose}
        edges = [[-d / 2] + list(c) + [d / 2] for d, c in zip(dim, case["cuts"])]
        parts = []
        for i in range(len(edges[0]) - 1):
            for j in range(len(edges[1]) - 1):
                for k in range(len(edges[2]) - 1):
                    lo = np.array([edges[0][i], edges[1][j], edges[2][k]])
                    hi = np.array([edges[0][i + 1], edges[1][j + 1], edges[2][k + 1]])
                    if case.get("parts_as") == "mesh":
                        Vb, Fb = gen.box_mesh((hi - lo).tolist())
                        parts.append({"cls": "TriangularMesh", "vertices": np.asarray(Vb, dtype=float).tolist(), "faces": np.asarray(Fb).tolist(),
                                      "polarization": pol, **_place((lo + hi) / 2, pose)})
                    else:
                        parts.append({"cls": "Cuboid", "dimension": (hi - lo).tolist(), "polarization": pol, **_place((lo + hi) / 2, pose)})
        return whole, parts, True
    if kind in ("cuboid_mesh", "cuboid_tetra", "cuboid_triangles"):
        dim = case["dimension"]
        whole = {"cls": "Cuboid", "dimension": dim, "polarization": pol, **pose}
        V, F = gen.box_mesh(dim)
        V, F = np.array(V), np.array(F)
        if kind == "cuboid_tetra":
            return whole, [{"cls": "Tetrahedron", "vertices": t, "polarization": pol, **pose} for t in _tets_of_box(dim, case["split"])], True
        if kind == "cuboid_triangles":
            return whole, [{"cls": "Triangle", "vertices": V[f].tolist(), "polarization": pol, **pose} for f in F], False
        Ff = F.copy()
        for i, fl in enumerate(case["flip"][: len(Ff)]):
            if fl:
                Ff[i] = Ff[i][[0, 2, 1]]
        pos, ori = pose["position"][0], R.from_quat(pose["orientation"][0])
        with build.quiet():
            c = case["ctor"]
            if c == "convexhull":
                obj = magpy.magnet.TriangularMesh.from_ConvexHull(points=V, polarization=pol, position=pos, orientation=ori)
            elif c == "direct":
                obj = magpy.magnet.TriangularMesh(vertices=V, faces=Ff, polarization=pol, position=pos, orientation=ori)
            elif c == "from_mesh":
                obj = magpy.magnet.TriangularMesh.from_mesh(mesh=V[Ff], polarization=pol, position=pos, orientation=ori)
            else:
                tris = [magpy.misc.Triangle(vertices=V[f], polarization=(0, 0, 1)) for f in Ff]
                obj = magpy.magnet.TriangularMesh.from_triangles(triangles=tris, polarization=pol, position=pos, orientation=ori)
        return whole, [obj], True
    if kind == "tetra_mesh":
        whole = {"cls": "Tetrahedron", "vertices": case["vertices"], "polarization": pol, **pose}
        return whole, [{"cls": "TriangularMesh", "vertices": case["vertices"], "faces": [[0, 1, 2], [0, 1, 3], [0, 2, 3], [1, 2, 3]], "polarization": pol, **pose}], True
    if kind == "cylinder_segment":
        d, h = case["dimension"]
        whole = {"cls": "Cylinder", "dimension": [d, h], "polarization": pol, **pose}
        return whole, [{"cls": "CylinderSegment", "dimension": [0.0, d / 2, h, case["phi0"], case["phi0"] + 360.0], "polarization": pol, **pose}], True
    if kind == "cylinder_parts":
        d, h = case["dimension"]
        whole = {"cls": "Cylinder", "dimension": [d, h], "polarization": pol, **pose}
        rs = [0.0] + list(case["rcuts"]) + [d / 2]
        ps = [case["phi0"]] + list(case["pcuts"]) + [case["phi0"] + 360.0]
        zs = [-h / 2] + list(case["zcuts"]) + [h / 2]
        parts = []
        for i in range(len(rs) - 1):
            for j in range(len(ps) - 1):
                for k in range(len(zs) - 1):
                    parts.append({"cls": "CylinderSegment", "dimension": [rs[i], rs[i + 1], zs[k + 1] - zs[k], ps[j], ps[j + 1]],
                                  "polarization": pol, **_place([0.0, 0.0, (zs[k] + zs[k + 1]) / 2], pose)})
        return whole, parts, True
    if kind == "sphere_dipole":
        dia = case["diameter"]
        whole = {"cls": "Sphere", "diameter": dia, "polarization": pol, **pose}
        vol = 4.0 / 3.0 * np.pi * (dia / 2) ** 3
        mom = (np.asarray(pol) / magpy.mu_0 * vol).tolist()
        return whole, [{"cls": "Dipole", "moment": mom, **pose}], False
    if kind == "mesh_to_triangles":
        whole = {"cls": "TriangularMesh", **case["mesh"], "polarization": pol, **case["pose"]}
        obj = build.build_source(whole)
        return whole, [obj.to_TriangleCollection()], False
    raise ValueError(kind)


def run_case(case, ctx):
    magpy = build.magpy
    kind, field = case["kind"], case["field"]
    ctx.label("kind:" + kind)
    if kind == "ngon_circle":
        return _run_ngon(case, ctx)
    out = []
    r = build.call(build_sides, case)
    if not r.ok:
        return [Violation({"sub": "construction_raised", "kind": kind, **exc_sig(r.exc)}, f"{type(r.exc).__name__}: {str(r.exc)[:200]}")]
    whole, parts, inside_ok = r.value
    if not inside_ok and field in ("B", "J") and kind != "sphere_dipole":
        field = "H"  # sheets / triangle collections have no interior term: H is the comparable field
    if kind == "sphere_dipole" and field == "J":
        field = "B"
    fn = getattr(magpy, "get" + field)
    body = geom.body_from_spec(whole)
    part_bodies = [(geom.body_from_spec(p), p) for p in parts if isinstance(p, dict)]
    # observers: clearance from the whole and from every part
    keep = []
    for o in case["observers"]:
        pl = np.asarray(o["local"], dtype=float)
        g = build.to_global(whole, pl)
        ok = float(body.dist(pl[None])[0]) >= 1e-3 * body.L
        for pb, ps in part_bodies:
            if not ok:
                break
            ok = float(pb.dist(build.to_local(ps, g)[None])[0]) >= 1e-3 * body.L
        if kind == "sphere_dipole" and bool(body.inside(pl[None])[0]):
            ok = False
        if ok:
            keep.append((o, pl, g))
    if not keep:
        ctx.label("no_observer_with_clearance")
        return out
    G = np.array([g for _, _, g in keep])
    src_w = build.build_source(whole)
    rw = build.call(fn, src_w, G, squeeze=False)
    if not rw.ok:
        return [Violation({"sub": "call_raised", "kind": kind, "side": "whole", **exc_sig(rw.exc)}, repr(rw.exc)[:200])]
    M = np.asarray(rw.value).shape[1]
    Fw = np.asarray(rw.value).reshape(M, len(G), 3)
    tot = np.zeros_like(Fw)
    allow = np.zeros((M, len(G)))
    S = build.field_scale(whole) * (1.0 if field in "BJ" else 1.0 / magpy.mu_0)
    mags_w = np.linalg.norm(Fw, axis=-1)
    for m in range(M):
        for k, (_, pl, g) in enumerate(keep):
            lw = build.to_local(whole, g, m)
            tw, nw = geom.special_dist(body, lw[None], with_name=True)
            allow[m, k] += float(c01.accuracy_band(whole["cls"], body, lw[None])[0]) * mags_w[m, k] if mags_w[m, k] > 0 else 0.0
    for p in parts:
        obj = build.build_source(p) if isinstance(p, dict) else p
        rp = build.call(fn, obj, G, squeeze=False)
        if not rp.ok:
            if exc_sig(rp.exc)["frame"] in ("special_cel.py:cel0", "special_el3.py:el30"):
                ctx.label("part_raised_internal_error_skipped")  # finiteness / exceptions near special sets: C15 (KF-C15-2)
                return out
            return [Violation({"sub": "call_raised", "kind": kind, "side": "part", **exc_sig(rp.exc)}, repr(rp.exc)[:200])]
        Fp = np.asarray(rp.value).reshape(-1, len(G), 3)
        if Fp.shape[0] == 1 and M > 1:
            Fp = np.repeat(Fp, M, axis=0)
        tot += Fp
        if isinstance(p, dict):
            pb = geom.body_from_spec(p)
            for m in range(M):
                for k, (_, pl, g) in enumerate(keep):
                    lp = build.to_local(p, g, m)
                    tp, npn = geom.special_dist(pb, lp[None], with_name=True)
                    bnd = float(c01.accuracy_band(p["cls"], pb, lp[None])[0])
                    allow[m, k] += bnd * float(np.linalg.norm(Fp[m, k])) if np.isfinite(bnd) else np.inf
        else:
            # an object built from the same geometry (mesh / triangle collection): envelope of its class at the
            # observer, measured on the body of the whole (identical shape and pose)
            pcls = "TriangularMesh" if type(p).__name__ == "TriangularMesh" else "Triangle"
            pbody = body if isinstance(body, geom.Polyhedron) else geom.body_from_spec(whole)
            for m in range(M):
                for k, (_, pl, g) in enumerate(keep):
                    lw = build.to_local(whole, g, m)
                    tp, npn = geom.special_dist(pbody, lw[None], with_name=True)
                    allow[m, k] += c01.tolerance(pcls, float(tp[0]) / pbody.L, float(pbody.dist(lw[None])[0]) / pbody.L,
                                                 npn[0] if npn[0] in ("edge_line", "surface") else "surface") * float(np.linalg.norm(Fp[m, k]))
    # the same partition summed by the library in one call: must equal the sum of the single calls (same formulas, same
    # inputs: rounding only)
    if case.get("one_call") and len(parts) >= 2:
        objs = [build.build_source(p) if isinstance(p, dict) else p for p in parts]
        r1 = build.call(fn, objs, G, squeeze=False, sumup=True)
        if not r1.ok:
            out.append(Violation({"sub": "call_raised", "kind": kind, "side": "parts_in_one_call", **exc_sig(r1.exc)}, repr(r1.exc)[:200]))
        else:
            t1 = np.asarray(r1.value).reshape(-1, len(G), 3)
            if t1.shape[0] == 1 and M > 1:
                t1 = np.repeat(t1, M, axis=0)
            with np.errstate(invalid="ignore"):
                d1 = np.linalg.norm(t1 - tot, axis=-1)
            psum = np.zeros((M, len(G)))
            ok1 = np.isfinite(d1)
            # (1e-7: cylinder-type accuracy; plus the parts' own accuracy band where they are ill-conditioned)
            bad1 = (d1 > 1e-7 * np.maximum(np.linalg.norm(tot, axis=-1), 1e-3 * S) + allow) & ok1
            if np.any(bad1):
                m_, k_ = (int(x) for x in np.argwhere(bad1)[0])
                out.append(Violation({"sub": "parts_in_one_call_differ", "kind": kind, "field": field, "parts_as": case.get("parts_as", "n/a")},
                                     f"{kind}: getX([{len(parts)} parts], obs, sumup=True) differs from the sum of the single calls by "
                                     f"{float(d1[m_, k_]):.3g} (sum {tot[m_, k_].tolist()}) at observer {keep[k_][0]['local']}"))
            ctx.label("parts_in_one_call")
    diff = np.linalg.norm(tot - Fw, axis=-1)
    finite = np.isfinite(diff)
    if not np.all(finite):
        ctx.label("nonfinite_elements_skipped")
    bad = (diff > allow + 1e-9 * S) & finite
    nt = len(parts) >= 3 or any(bool(body.inside(pl[None])[0]) for _, pl, _ in keep if body.kind == "magnet") or \
        list(whole["orientation"][0]) != [0.0, 0.0, 0.0, 1.0]
    if np.any(bad):
        m, k = (int(x) for x in np.argwhere(bad)[0])
        o, pl, g = keep[k]
        ins = bool(body.inside(pl[None])[0]) if body.kind == "magnet" else False
        rel = float(diff[m, k] / max(mags_w[m, k], 1e-300))
        from vf.props.c02 import _coplanar  # pylint: disable=import-outside-toplevel

        out.append(Violation({"sub": "representations_differ", "kind": kind, "field": field, "inside": ins,
                              "magnitude": "O(1)" if rel > 1e-2 else ("1e-5..1e-2" if rel > 1e-5 else "small"),
                              "ctor": case.get("ctor", ""), "coplanar_face_planes": _coplanar(body, pl)},
                             f"{kind}: {field} of the whole ({whole['cls']}) and of its {len(parts)} part(s)/other representation differ by {rel:.3g} "
                             f"(relative) at local {pl.tolist()} (region {o['region']}, inside={ins}); whole {Fw[m, k].tolist()} other {tot[m, k].tolist()}"))
    if nt:
        ctx.mark_nontrivial(case)
        ctx.sample(case, nontrivial=True)
    else:
        ctx.sample(case)
    return out


def _run_ngon(case, ctx):
    """inscribed regular n-gon vs circle: error ~ 1/n^2 (ratio between n and 2n in [3,5]) and below K/n^2"""
    magpy = build.magpy
    dia, cur, n, pose = case["diameter"], case["current"], case["n"], case["pose"]
    whole = {"cls": "Circle", "diameter": dia, "current": cur, **pose}
    body = geom.body_from_spec(whole)
    G = np.array([build.to_global(whole, o["local"]) for o in case["observers"]])
    Fc = np.asarray(magpy.getH(build.build_source(whole), G, squeeze=False)).reshape(len(G), 3)

    def ngon(k):
        ang = np.linspace(0, 2 * np.pi, k + 1)
        V = np.stack([dia / 2 * np.cos(ang), dia / 2 * np.sin(ang), np.zeros_like(ang)], axis=1)
        V[-1] = V[0]
        return np.asarray(magpy.getH(build.build_source({"cls": "Polyline", "vertices": V.tolist(), "current": cur, **pose}), G, squeeze=False)).reshape(len(G), 3)

    e1 = np.linalg.norm(ngon(n) - Fc, axis=1)
    e2 = np.linalg.norm(ngon(2 * n) - Fc, axis=1)
    sc = np.maximum(np.linalg.norm(Fc, axis=1), 1e-300)
    out = []
    for k, o in enumerate(case["observers"]):
        d = float(body.dist(np.asarray(o["local"])[None])[0]) / body.L
        # the inscribed polygon converges like (pi/n)^2 * C(d); at distance d from the wire the constant grows like 1/d^2
        K = 40.0 * max(1.0, 1.0 / d**2)
        if e1[k] / sc[k] > K / n**2 + 1e-9:
            out.append(Violation({"sub": "ngon_not_converging", "n": n}, f"n={n}: rel. error {e1[k] / sc[k]:.3g} > {K / n**2:.3g} at d/L={d:.3g}"))
        elif e1[k] / sc[k] > 1e-7 and (np.pi * dia / n) < 0.3 * d * body.L and not 2.0 <= e1[k] / max(e2[k], 1e-300):
            # (the 1/n^2 regime needs polygon sides much shorter than the distance to the wire)
            out.append(Violation({"sub": "ngon_convergence_order", "n": n},
                                 f"error ratio between n={n} and 2n is {e1[k] / max(e2[k], 1e-300):.3g}, expected ~4 (a ratio below 2 means the polygon does not converge at second order; faster is fine: the leading term can cancel at single observers) (errors {e1[k] / sc[k]:.3g}, {e2[k] / sc[k]:.3g})"))
    ctx.mark_nontrivial(case)
    ctx.sample(case, nontrivial=True)
    return out[:1]
