"""C19  show() draws each object where it is and does not alter it.

Generated: objects of every class with generic pose and a path of 1-4 steps, frame selections,
single objects / several objects / nested collections, length-unit settings; backend plotly
with return_fig=True (no rendering) and matplotlib on the Agg canvas.
Oracle: a geometric predicate on the figure data (mesh vertices mapped back through unit and
pose lie on the body's surface and span its extent for every displayed path index; current
lines pass through the conductor; the path line passes through the path positions) and a byte
snapshot of objects, styles, caller dictionaries and magpylib.defaults before / after.
"""
from __future__ import annotations

import copy as _copy
import re

import numpy as np
from hypothesis import strategies as st
from scipy.spatial.transform import Rotation as R

from vf import build, gen, geom
from vf.core import Violation, exc_sig

ID = "C19"
LEVEL = "exploration"
TECHNIQUE = "property-based testing with a geometric predicate on the figure data produced by show() and a before/after snapshot (Hypothesis)"
RULE = (
    "case = subject (one object of any class, or a collection / nested collection of 2-4 magnets) with generic pose and a "
    "path of 1-4 steps, distinct colours, style_path_frames in {default, int, list incl. out-of-range indices}, units_length "
    "in {auto, m, cm, mm, um}, backend plotly (return_fig=True) or matplotlib (Agg); optionally a caller-supplied style "
    "dictionary. non-trivial = generic (not axis-aligned) orientation, or path length >= 2 with frames shown, or a "
    "non-default unit; distinct = canonical hash"
)
ASSUMPTIONS = [
    "displayed path indices: default = last; int i = every i-th index counted from the last; list = the given indices, indices beyond the path held at the last pose (consistent with the field semantics of C06)",
    "drawn mesh vertices of magnets lie on the true surface (faceted round bodies put their vertices on the surface): tolerance 1e-6 L; extent tolerance 3 %",
    "arrows / glyphs (magnetization arrows, triangle orientation arrows, sensor and dipole models) are switched off or not judged; what the picture looks like is not judged",
]
CASE_TIMEOUT = 120
UNITS = {"m": 1.0, "cm": 1e-2, "mm": 1e-3, "µm": 1e-6, "um": 1e-6, "μm": 1e-6, "km": 1e3, "nm": 1e-9, "dm": 1e-1}
BODIES = ["Cuboid", "Cylinder", "CylinderSegment", "Sphere", "Tetrahedron", "TriangularMesh"]


def budget(tier):
    return {"examples": 2400 if tier == "quick" else 40000}


@st.composite
def case_strategy(draw):
    kind = draw(st.sampled_from(["body", "body", "body", "collection", "current", "current", "other"]))
    size = float(10.0 ** gen.r6(draw(gen.ufloat(-3, 1))))
    n_path = draw(st.integers(1, 4))

    def posed(cls):
        s = draw(gen.source_spec(classes=[cls], max_path=1, L=size, pos_extent=3.0))
        pp = draw(gen.pose_path(max_len=1, extent=3.0 * size))
        pos = [[gen.r6(draw(gen.ufloat(-3, 3)) * size) for _ in range(3)] for _ in range(n_path)]
        ori = [draw(gen.quaternion()) for _ in range(n_path)] if draw(st.booleans()) else [pp["orientation"][0]] * n_path
        s.update({"position": pos, "orientation": ori})
        return s

    mesh_show = None
    if kind == "body":
        members = [posed(draw(st.sampled_from(BODIES + ["Triangle"])))]
        if members[0]["cls"] == "TriangularMesh" and draw(st.booleans()):
            # a mesh of two disconnected bodies, shown with the mesh diagnostics switched on (non-default style)
            V = np.asarray(members[0]["vertices"], dtype=float)
            shift = np.array([(V[:, 0].max() - V[:, 0].min()) * gen.r6(draw(gen.ufloat(1.3, 2.0))), 0.0, 0.0])
            n0 = len(V)
            members[0]["vertices"] = V.tolist() + (V + shift).tolist()
            members[0]["faces"] = [list(f) for f in members[0]["faces"]] + [[int(i) + n0 for i in f] for f in members[0]["faces"]]
            mesh_show = draw(st.sampled_from([["disconnected"], ["disconnected", "open"], ["disconnected", "selfintersecting", "grid"], ["grid"]]))
    elif kind == "collection":
        members = [posed(draw(st.sampled_from(BODIES))) for _ in range(draw(st.integers(2, 4)))]
    elif kind == "current":
        members = [posed(draw(st.sampled_from(["Circle", "Polyline"])))]
    else:
        members = [posed("Dipole")] if draw(st.booleans()) else [{"cls": "Sensor", "pixel": draw(gen.pixel_array(extent=0.2 * size)), "handedness": "right",
                                                              **{k: v for k, v in posed("Dipole").items() if k in ("position", "orientation")}}]
    frames = draw(st.sampled_from(["default", "default", "int1", "int2", "int3", "list", "list_oob"]))
    if frames == "list":
        fr = sorted(set(draw(st.lists(st.integers(0, n_path - 1), min_size=1, max_size=3))))
    elif frames == "list_oob":
        fr = sorted(set(draw(st.lists(st.integers(0, n_path + 3), min_size=1, max_size=3)) + [n_path + draw(st.integers(0, 3))]))
    elif frames.startswith("int"):
        fr = int(frames[3:])
    else:
        fr = None
    anim = None
    if kind in ("body", "current") and draw(st.integers(0, 3)) == 0:
        # animation: one frame per (possibly down-sampled) path index; longer paths so that down-sampling happens
        n_anim = draw(st.integers(2, 9))
        base = members[0]
        pos = [[gen.r6(draw(gen.ufloat(-3, 3)) * size) for _ in range(3)] for _ in range(n_anim)]
        ori = [draw(gen.quaternion()) for _ in range(n_anim)] if draw(st.booleans()) else [base["orientation"][0]] * n_anim
        base.update({"position": pos, "orientation": ori})
        anim = {"value": draw(st.sampled_from([True, True, 2, 1])),  # (a float time is documented but rejected by the Animation.time validator: not this property)
                "maxframes": draw(st.sampled_from([None, None, 2, 3, 4, 6])),
                "fps": draw(st.sampled_from([None, None, 3, 10])),
                "slider": draw(st.sampled_from([None, True, False]))}
        frames, fr = "default", None
    return {"kind": kind, "members": members, "nested": draw(st.booleans()), "frames": fr, "animation": anim, "mesh_show": mesh_show,
            "units": draw(st.sampled_from(["default", "default", "auto", "m", "cm", "mm", "µm"])),
            "backend": "plotly" if anim else draw(st.sampled_from(["plotly", "plotly", "plotly", "matplotlib"])),
            "style_dict": draw(st.booleans()), "frames_via": draw(st.sampled_from(["kwarg", "object"]))}


def strategy(tier):
    return case_strategy()


_PRISTINE_DEFAULTS = [repr(build.magpy.defaults.as_dict())]


def displayed_indices(frames, n):
    if frames is None:
        return [n - 1]
    if isinstance(frames, int):
        return sorted(set(range(n - 1, -1, -frames)))
    return sorted({min(int(i), n - 1) for i in frames})


def _unit_factor(fig):
    title = fig.layout.scene.xaxis.title.text
    m = re.search(r"\(([^)]+)\)", title or "")
    if not m:
        return None, title
    return UNITS.get(m.group(1).strip()), title


def run_case(case, ctx):
    magpy = build.magpy
    out = []
    if repr(magpy.defaults.as_dict()) != _PRISTINE_DEFAULTS[0]:
        from vf.props.c20 import restore_defaults  # pylint: disable=import-outside-toplevel

        restore_defaults()  # global library state is restored before every case (a leak detected in one case is reported there)
    colors = ["red", "blue", "green", "orange"]
    objs = []
    for i, s in enumerate(case["members"]):
        if s["cls"] == "Sensor":
            o = build.build_sensor(s)
        else:
            o = build.build_source(s)
        o.style.label = f"OBJ{i}"
        o.style.color = colors[i % 4]
        if s["cls"] == "Triangle":
            o.style.orientation.show = False
        if hasattr(o.style, "magnetization"):
            o.style.magnetization.mode = "color"
        if s["cls"] in ("Circle", "Polyline"):
            o.style.arrow.show = False  # arrow heads are glyphs off the wire
        objs.append(o)
    ctx.label(f"kind:{case['kind']}")
    ctx.label(f"backend:{case['backend']}")
    ctx.label(f"units:{case['units']}")
    n_path = len(case["members"][0]["position"])
    subject = objs
    if case["kind"] == "collection":
        if case["nested"] and len(objs) >= 3:
            inner = magpy.Collection(*objs[:2], style_label="INNER")
            subject = [magpy.Collection(inner, *objs[2:], style_label="COLL")]
        else:
            subject = [magpy.Collection(*objs, style_label="COLL")]
    kw = {}
    frames = case["frames"]
    if frames is not None:
        if case["frames_via"] == "kwarg":
            kw["style_path_frames"] = _copy.deepcopy(frames)
        else:
            for o in objs:
                o.style.path.frames = _copy.deepcopy(frames)
    for what in case.get("mesh_show") or []:
        kw[f"style_mesh_{what}_show"] = True
        ctx.label("mesh_diagnostics_shown")
    caller_style = None
    if case["style_dict"]:
        caller_style = {"opacity": 0.7, "path": {"line": {"width": 2}}}
        if "style_path_frames" in kw:
            caller_style["path"]["frames"] = kw.pop("style_path_frames")
        kw["style"] = caller_style
    anim = case.get("animation")
    if anim:
        kw["animation"] = anim["value"]
        if anim["maxframes"] is not None:
            kw["animation_maxframes"] = anim["maxframes"]
        if anim["fps"] is not None:
            kw["animation_fps"] = anim["fps"]
        if anim["slider"] is not None:
            kw["animation_slider"] = anim["slider"]
        ctx.label("animation")
    if case["units"] != "default":
        kw["units_length"] = case["units"]
    everything = list(objs) + [s for s in subject if s not in objs] + [c for s in subject if isinstance(s, magpy.Collection) for c in s.collections_all]
    before = [build.snapshot_obj(o) for o in everything]
    defaults_before = repr(magpy.defaults.as_dict())
    style_before = _copy.deepcopy(caller_style)
    kw_before = repr(sorted((k, repr(v)) for k, v in kw.items() if k != "style"))

    if case["backend"] == "matplotlib":
        import matplotlib  # pylint: disable=import-outside-toplevel

        matplotlib.use("Agg")
        import matplotlib.pyplot as plt  # pylint: disable=import-outside-toplevel

        r = build.call(magpy.show, *subject, backend="matplotlib", return_fig=True, **kw)
        plt.close("all")
    else:
        r = build.call(magpy.show, *subject, backend="plotly", return_fig=True, **kw)
    after = [build.snapshot_obj(o) for o in everything]
    for o, b, a in zip(everything, before, after):
        d = build.diff_snap(b, a)
        if d:
            out.append(Violation({"sub": "show_changed_object", "what": d, "cls": type(o).__name__, "backend": case["backend"]},
                                 f"show() changed {d} of {type(o).__name__}"))
            break
    if repr(magpy.defaults.as_dict()) != defaults_before:
        out.append(Violation({"sub": "show_changed_defaults", "backend": case["backend"], "animation": bool(anim)},
                             "magpylib.defaults differs after show()" + (f" (animation keywords {sorted(k for k in kw if k.startswith('animation'))})" if anim else "")))
        from vf.props.c20 import restore_defaults  # pylint: disable=import-outside-toplevel

        restore_defaults()  # do not let one case's leak reach the next case
    if caller_style is not None and caller_style != style_before:
        out.append(Violation({"sub": "show_changed_caller_style_dict", "backend": case["backend"]},
                             f"the style dictionary passed to show() was modified: {style_before} -> {caller_style}"))
    if repr(sorted((k, repr(v)) for k, v in kw.items() if k != "style")) != kw_before:
        out.append(Violation({"sub": "show_changed_caller_kwargs"}, "keyword arguments passed to show() were modified"))
    if not r.ok:
        out.append(Violation({"sub": "show_raised", "backend": case["backend"], **exc_sig(r.exc)}, f"{type(r.exc).__name__}: {str(r.exc)[:200]}"))
        return out
    generic = any(np.count_nonzero(np.abs(np.asarray(q)) > 1e-6) >= 2 for s in case["members"] for q in s["orientation"])
    nt = generic or (n_path >= 2 and frames is not None) or case["units"] not in ("default", "auto", "m")
    if nt:
        ctx.mark_nontrivial(case)
        ctx.sample(case, nontrivial=True)
    else:
        ctx.sample(case)
    if case["backend"] != "plotly":
        return out
    fig = r.value
    fac, title = _unit_factor(fig)
    if fac is None:
        out.append(Violation({"sub": "axis_unit_unreadable"}, f"axis title {title!r}"))
        return out
    if case["units"] in ("m", "cm", "mm", "µm") and abs(fac - UNITS[case["units"]]) > 1e-12 * fac:
        out.append(Violation({"sub": "axis_unit_wrong", "requested": case["units"]}, f"axis title {title!r}"))
    paths_static = []

    def judge(traces, inds, frame_tag):
        """geometric predicate for one set of traces that claims to show the path indices `inds`"""
        meshes, lines, paths = [], [], []
        for t in traces:
            if t.x is None:
                continue
            P = np.stack([np.asarray(t.x, dtype=float), np.asarray(t.y, dtype=float), np.asarray(t.z, dtype=float)], 1) * fac
            ty = type(t).__name__
            if ty == "Mesh3d" and t.i is not None:
                used = np.unique(np.concatenate([np.asarray(t.i), np.asarray(t.j), np.asarray(t.k)]).astype(int))
                meshes.append((t.name or "", P[used]))
            elif ty == "Scatter3d":
                mode = t.mode or ""
                ok = np.all(np.isfinite(P), axis=1)
                (paths if "markers" in mode else lines).append((t.name or "", P[ok]))
        paths_static[:] = paths
        sig0 = {"kind": case["kind"], "animation_frame": frame_tag, "frames": "default" if frames is None else ("int" if isinstance(frames, int) else ("list_oob" if max(frames) >= n_path else "list")),
                "units": case["units"]}
        # ---- bodies
        body_members = [(o, s) for o, s in zip(objs, case["members"]) if s["cls"] in BODIES + ["Triangle"]]
        if body_members:
            label_ok = ("COLL", "INNER") if case["kind"] == "collection" else ("OBJ0",)
            V = [P for name, P in meshes if name.startswith(label_ok)]
            if not V:
                out.append(Violation({**sig0, "sub": "no_mesh_drawn"}, f"no Mesh3d trace for the subject; traces: {[n for n, _ in meshes]}"))
                return None
            V = np.concatenate(V)
            explained = np.zeros(len(V), dtype=bool)
            for o, s in body_members:
                body = geom.body_from_spec(s)
                lo, hi = _bbox(body)
                for m in inds:
                    p, rot = build.pose_at(s, m)
                    loc = rot.apply(V - p, inverse=True)
                    slab = 0.0
                    if s["cls"] == "Triangle":
                        # documented drawing convention: when the magnetization is normal to the sheet it is drawn as a
                        # slab of half thickness 1e-3 * |(v1-v0) x (v2-v1)| so that both colours show
                        tv = np.asarray(s["vertices"], dtype=float)
                        slab = 1.01e-3 * float(np.linalg.norm(np.cross(tv[1] - tv[0], tv[2] - tv[1])))
                    on = body.dist(loc) <= 1e-6 * body.L + 1e-9 * float(np.max(np.abs(V)) + 1e-300) + slab
                    explained |= on
                    if not np.any(on):
                        out.append(Violation({**sig0, "sub": "object_not_drawn_at_frame", "cls": s["cls"], "frame_is_last": m == n_path - 1},
                                             f"{s['cls']}: no drawn vertex lies on the body at displayed path index {m} (of {n_path}); frames={frames}"))
                        continue
                    ext_lo, ext_hi = loc[on].min(0), loc[on].max(0)
                    span = hi - lo
                    allow = 0.03 * np.maximum(span, body.L * 1e-9) + 1e-12
                    if s["cls"] == "CylinderSegment":
                        # the arc is drawn as a polygon with the documented vertex count max(5, int(50*|phi2-phi1|/360)):
                        # an extremum of the arc between two drawn vertices is missed by at most the sagitta (thin shells:
                        # the sagitta can exceed 3 % of the span; thorough tier, seed 3)
                        _r1, _r2, _h, _p1, _p2 = (float(x) for x in s["dimension"])
                        _nv = max(5, int(50 * abs(_p1 - _p2) / 360))
                        _sag = 1.05 * _r2 * (1.0 - np.cos(np.deg2rad(abs(_p2 - _p1)) / (2 * (_nv - 1))))
                        allow = allow + np.array([_sag, _sag, 0.0])
                    if np.any(ext_lo - lo > allow) or np.any(hi - ext_hi > allow):
                        out.append(Violation({**sig0, "sub": "drawn_extent", "cls": s["cls"]},
                                             f"{s['cls']} at path index {m}: drawn vertices span {ext_lo.tolist()}..{ext_hi.tolist()}, body spans {lo.tolist()}..{hi.tolist()}"))
            if not np.all(explained):
                k = int(np.flatnonzero(~explained)[0])
                out.append(Violation({**sig0, "sub": "vertex_off_surface", "classes": sorted({s['cls'] for _, s in body_members})},
                                     f"{int(np.sum(~explained))} of {len(V)} drawn vertices lie on no member's surface at any displayed path index {inds} "
                                     f"(first: {V[k].tolist()} m; unit factor {fac})"))
        # ---- currents
        for o, s in zip(objs, case["members"]):
            if s["cls"] not in ("Circle", "Polyline"):
                continue
            body = geom.body_from_spec(s)
            pts = [P for name, P in lines if name.startswith("OBJ0") and len(P) >= (8 if s["cls"] == "Circle" else len(s["vertices"]))]
            if not pts:
                out.append(Violation({**sig0, "sub": "no_line_drawn", "cls": s["cls"]}, f"no line trace for {s['cls']}; lines {[(n, len(p)) for n, p in lines]}"))
                continue
            Pl = np.concatenate(pts)
            explained = np.zeros(len(Pl), dtype=bool)
            for m in inds:
                p, rot = build.pose_at(s, m)
                loc = rot.apply(Pl - p, inverse=True)
                on = body.dist(loc) <= 1e-6 * body.L + 1e-9 * float(np.max(np.abs(Pl)) + 1e-300)
                explained |= on
                if s["cls"] == "Polyline":
                    Vv = np.asarray(s["vertices"], dtype=float)
                    hit = [np.min(np.linalg.norm(loc[on] - v, axis=1)) <= 1e-6 * body.L if np.any(on) else False for v in Vv]
                    if not all(hit):
                        out.append(Violation({**sig0, "sub": "conductor_vertex_not_drawn", "cls": "Polyline"}, f"path index {m}: vertices hit {hit}"))
                elif np.any(on):
                    ang = np.arctan2(loc[on][:, 1], loc[on][:, 0])
                    if len(np.unique(np.floor((ang + np.pi) / (np.pi / 2)).astype(int) % 4)) < 4:
                        out.append(Violation({**sig0, "sub": "loop_not_closed", "cls": "Circle"}, f"path index {m}: drawn loop does not cover all quadrants"))
                if not np.any(on):
                    out.append(Violation({**sig0, "sub": "object_not_drawn_at_frame", "cls": s["cls"], "frame_is_last": m == n_path - 1},
                                         f"{s['cls']}: no drawn line point on the conductor at displayed path index {m}"))
            frac = float(np.mean(explained))
            if frac < 0.999:
                out.append(Violation({**sig0, "sub": "line_off_conductor", "cls": s["cls"]}, f"only {frac:.2f} of the drawn line points lie on the conductor"))
        return sig0

    if anim:
        fr_list = list(fig.frames)
        if len(fr_list) == 0:
            # a path of length 1 (or identical frames) legitimately falls back to a static figure
            judge(fig.data, [n_path - 1], "static_fallback")
        names = []
        for f in fr_list:
            try:
                idx = int(str(f.name)) - 1
            except ValueError:
                out.append(Violation({"sub": "animation_frame_name", "kind": case["kind"]}, f"frame name {f.name!r} is not a path index"))
                break
            names.append(idx)
            if not 0 <= idx < n_path:
                out.append(Violation({"sub": "animation_frame_index_out_of_range", "kind": case["kind"]}, f"frame {f.name!r} for a path of length {n_path}"))
                break
            judge(f.data, [idx], "frame")
        if fr_list and names and (names != sorted(set(names)) or names[0] != 0):
            out.append(Violation({"sub": "animation_frame_order", "kind": case["kind"]}, f"frame path indices {names} (path length {n_path})"))
        ctx.label(f"animation_frames:{'downsampled' if 0 < len(fr_list) < n_path else 'all'}")
        sig0 = {"kind": case["kind"], "frames": "animation", "units": case["units"]}
        paths = []
    else:
        inds = displayed_indices(frames, n_path)
        sig0 = judge(fig.data, inds, "none")
        if sig0 is None:
            return out
        paths = list(paths_static)
    # ---- path line passes through the path positions
    if n_path >= 2 and not anim:
        subj_pos = np.asarray(case["members"][0]["position"], dtype=float) if case["kind"] != "collection" else None
        if subj_pos is not None:
            cands = [P for name, P in paths if name.startswith("OBJ0") and len(P) == n_path]
            if not cands:
                out.append(Violation({**sig0, "sub": "no_path_drawn"}, f"no path trace with {n_path} points; {[(n, len(p)) for n, p in paths]}"))
            elif not any(np.allclose(P, subj_pos, rtol=1e-9, atol=1e-9 * float(np.max(np.abs(subj_pos)) + 1e-300)) for P in cands):
                out.append(Violation({**sig0, "sub": "path_line_wrong"}, f"path line {cands[0].tolist()} vs positions {subj_pos.tolist()}"))
    seen, uniq = set(), []
    for v in out:
        if v.sig_key() not in seen:
            seen.add(v.sig_key())
            uniq.append(v)
    return uniq


def _bbox(body):
    if isinstance(body, geom.Polyhedron):
        return body.V.min(0), body.V.max(0)
    if isinstance(body, geom.SphereBody):
        return -body.R * np.ones(3), body.R * np.ones(3)
    if isinstance(body, geom.CylSeg):
        if body.full:
            return np.array([-body.r2, -body.r2, -body.h / 2]), np.array([body.r2, body.r2, body.h / 2])
        # extreme points: corners and axis-aligned directions inside the range
        angs = [body.phi1, body.phi2] + [k * np.pi / 2 for k in range(-8, 9) if bool(body.ang_in(np.array([k * np.pi / 2]))[0])]
        pts = [[r * np.cos(a), r * np.sin(a)] for a in angs for r in (body.r1, body.r2)]
        pts = np.array(pts)
        return np.array([pts[:, 0].min(), pts[:, 1].min(), -body.h / 2]), np.array([pts[:, 0].max(), pts[:, 1].max(), body.h / 2])
    raise ValueError(type(body))
