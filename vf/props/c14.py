"""C14  Returned fields obey the integral laws of magnetostatics.

(i) flux of getB through closed surfaces (boxes, spheres; in free space, inside a magnet,
    enclosing the source, cutting through its boundary) is zero;
(ii) circulation of getH around closed loops (circles, polygons in general position) equals
    the current threading the loop (I x linking number; zero for magnets and dipoles).
Both are evaluated by the harness' own quadrature of the library's output: adaptive
Gauss-Legendre cells refined towards the body's surface (where the integrand jumps) with two
settings; loops are broken at their crossings of the magnet boundary (harness inside test).
"""
from __future__ import annotations

import numpy as np
from hypothesis import strategies as st
from scipy.spatial.transform import Rotation as R

from vf import build, gen, geom
from vf.core import Violation, exc_sig

ID = "C14"
LEVEL = "exploration"
TECHNIQUE = "property-based testing of integral laws (Gauss, Ampere) by harness quadrature of library output over generated closed surfaces and loops (Hypothesis)"
RULE = (
    "case = source (magnet classes, Dipole, Circle, closed Polyline; generic pose) x either a closed surface (box or sphere, "
    "size 0.05..20 L, placed in free space / inside the magnet / enclosing it / cutting its boundary; never pierced by a wire) "
    "or a closed loop (circle or polygon in general position, >= 1e-2 L from any wire and edge; through free space and "
    "through magnets, linking or not linking the current). non-trivial = the surface or loop passes through a magnet's "
    "boundary, or the loop links a current; distinct = canonical hash"
)
ASSUMPTIONS = [
    "flux: |flux| <= (1e-6, plus 0.25*h/size with h = 2e-3 L when the surface cuts the magnet boundary) * int|B|dA + 10 * (difference of the two quadrature settings); inconclusive when the two settings differ by more than 2e-2 of int|B|dA",
    "circulation: |circ - I*Lk| <= 1e-6 * int|H|dl + 100 * (two-setting difference; inconclusive above 3e-6); Lk from the Gauss double integral (inconclusive unless within 0.02 of an integer)",
    "inside/outside along a loop and the distance to the surface come from the harness geometry (vf/geom.py)",
]
CASE_TIMEOUT = 90

MAGNETS = ["Cuboid", "Cylinder", "Sphere", "Tetrahedron", "TriangularMesh", "CylinderSegment"]


def budget(tier):
    return {"examples": 800 if tier == "quick" else 20000, "shrink": False, "shards": 96 if tier == "quick" else 256}


@st.composite
def case_strategy(draw):
    mode = draw(st.sampled_from(["flux", "flux", "circulation", "circulation", "circulation"]))
    if mode == "flux":
        # (CylinderSegment: ~1e6 field evaluations per surface at ~0.1 ms each - only in the circulation part)
        cls = draw(st.sampled_from(["Cuboid", "Cuboid", "Cuboid", "Cylinder", "Cylinder", "Sphere", "Tetrahedron", "TriangularMesh", "Dipole", "CylinderSegment", "CylinderSegment"]))
    else:
        cls = draw(st.sampled_from(MAGNETS + ["Cuboid", "Cuboid", "Cylinder", "Circle", "Circle", "Polyline", "Polyline", "Dipole"]))
    spec = draw(gen.source_spec(classes=[cls], max_path=1, L=1.0, pos_extent=1.0))
    if cls == "Polyline":
        spec["vertices"] = draw(gen.polyline_vertices(L=1.0, closed=True, n_max=5))
        if len(spec["vertices"]) < 4:
            spec["vertices"] = [[0.0, 0.0, 0.0], [0.8, 0.1, 0.0], [0.5, 0.7, 0.2], [0.0, 0.0, 0.0]]
    if cls == "TriangularMesh":
        # (flux through a boundary-cutting surface costs ~1e5..1e6 evaluations x number of faces: few-faced meshes there)
        spec.update(draw(gen.mesh_geometry(L=1.0, kinds=("box", "box", "prism") if mode == "flux" else ("box", "hull", "prism"))))
    body = geom.body_from_spec(spec)
    L = body.L
    place = draw(st.sampled_from(["cut", "cut", "cut", "inside", "free", "enclose"]))
    if mode == "flux" and cls == "CylinderSegment":
        place = "inside"  # smooth integrand, no refinement towards the boundary: affordable for the slow class
    u = draw(gen.uniforms(8))
    if place == "cut":
        S, n, _ = body.surface_point(u)
        c = S + n * L * (u[3] - 0.5) * 0.2
        size = L * geom.logu(u[4], -0.8, -0.1)
    elif place == "inside" and body.kind == "magnet":
        p = geom.observer_in_region(body, "inside", u, clear=3e-2)
        if cls == "CylinderSegment" and u[5] < 0.6:
            # centre the surface on one of the half planes where the routine's azimuth bookkeeping switches
            # (phi = 180 deg: arctan2 branch cut; phi = 0: sign change of phi), when that plane runs through the body
            for ang in ((np.pi, 0.0) if u[6] < 0.5 else (0.0, np.pi)):
                if body.full or bool(body.ang_in(ang, strict=True, tol=0.15)):
                    rr = body.r1 + (body.r2 - body.r1) * (0.25 + 0.5 * u[1])
                    p = np.array([rr * np.cos(ang), rr * np.sin(ang), body.h * (u[2] - 0.5) * 0.5])
                    break
        c = p if p is not None else np.zeros(3)
        dd = float(body.dist(np.asarray(c)[None])[0])
        size = max(0.02 * L, 0.9 * dd) * (0.3 + 0.7 * u[4])
    elif place == "enclose":
        c = (np.array(u[1:4]) - 0.5) * 0.4 * L
        size = L * geom.logu(u[4], 0.5, 1.3)
    else:
        c = geom.direction_from_u(u[1], u[2]) * L * geom.logu(u[3], 0.3, 1.0)
        size = L * geom.logu(u[4], -1.3, -0.5)
    q = draw(gen.quaternion(pool=False))
    case = {"mode": mode, "source": spec, "place": place, "center": [float(x) for x in c], "size": float(size), "frame": q}
    if mode == "flux":
        case["shape"] = draw(st.sampled_from(["box", "box", "sphere"]))
        case["aspect"] = [gen.r6(draw(gen.ufloat(0.5, 1.0))) for _ in range(3)]
    else:
        case["shape"] = draw(st.sampled_from(["circle", "circle", "polygon"]))
        case["npoly"] = draw(st.integers(3, 6))
        case["jitter"] = draw(gen.uniforms(18))
        if cls in ("Circle", "Polyline") and draw(st.booleans()):
            # aim at linking: centre the loop on the wire, in a plane that contains the local tangent direction's normal
            S, n, _ = body.surface_point(u)
            case["center"] = [float(x) for x in S]
            case["size"] = float(L * geom.logu(u[4], -1.0, -0.3))
            case["place"] = "around_wire"
    return case


def strategy(tier):
    return case_strategy()


# ----------------------------------------------------------------------------- quadrature

_GL = {}


def _gl(n):
    if n not in _GL:
        x, w = np.polynomial.legendre.leggauss(n)
        _GL[n] = (0.5 * (x + 1), 0.5 * w)
    return _GL[n]


def _surface_panels(case):
    """list of maps (u,v)->(X, n, dS) in the LOCAL frame of the source"""
    c = np.asarray(case["center"], dtype=float)
    Rf = R.from_quat(case["frame"])
    s = case["size"]
    panels = []
    if case["shape"] == "box":
        half = 0.5 * s * np.asarray(case["aspect"], dtype=float)
        for ax in range(3):
            for sg in (1.0, -1.0):
                a1, a2 = (ax + 1) % 3, (ax + 2) % 3

                def mk(ax=ax, sg=sg, a1=a1, a2=a2):
                    def f(u, v):
                        P = np.zeros((len(u), 3))
                        P[:, ax] = sg * half[ax]
                        P[:, a1] = (2 * u - 1) * half[a1]
                        P[:, a2] = (2 * v - 1) * half[a2]
                        n = np.zeros(3)
                        n[ax] = sg
                        return Rf.apply(P) + c, np.broadcast_to(Rf.apply(n), (len(u), 3)), np.full(len(u), 4 * half[a1] * half[a2])
                    return f
                panels.append(mk())
    else:
        rad = 0.5 * s
        for k in range(3):
            for sg in (1.0, -1.0):
                def mk(k=k, sg=sg):
                    def f(u, v):
                        p = np.zeros((len(u), 3))
                        p[:, k] = sg
                        p[:, (k + 1) % 3] = 2 * u - 1
                        p[:, (k + 2) % 3] = 2 * v - 1
                        nn = np.linalg.norm(p, axis=1)
                        n = p / nn[:, None]
                        return Rf.apply(rad * n) + c, Rf.apply(n), 4.0 * rad**2 / nn**3
                    return f
                panels.append(mk())
    return panels


def _flux(case, spec, body, src, theta, ngl, hmin):
    """(flux, int|B|dA, evaluations)"""
    x, w = _gl(ngl)
    tot, tot_abs, nev = 0.0, 0.0, 0
    for pan in _surface_panels(case):
        cells = np.array([[0.0, 1.0, 0.0, 1.0]])
        if case["shape"] == "sphere":
            e = np.linspace(0, 1, 5)
            cells = np.array([[e[i], e[i + 1], e[j], e[j + 1]] for i in range(4) for j in range(4)])
        leaves = []
        for _ in range(40):
            if not len(cells):
                break
            uc, vc = 0.5 * (cells[:, 0] + cells[:, 1]), 0.5 * (cells[:, 2] + cells[:, 3])
            Xc, _, _ = pan(uc, vc)
            X00, _, _ = pan(cells[:, 0], cells[:, 2])
            X11, _, _ = pan(cells[:, 1], cells[:, 3])
            diam = np.linalg.norm(X11 - X00, axis=1)
            d = body.dist(Xc)
            split = (diam > theta * np.maximum(d, 0.0)) & (diam > hmin)
            # always resolve to a moderate size
            split |= diam > 0.26 * case["size"]
            leaves.append(cells[~split])
            s = cells[split]
            if not len(s):
                cells = s
                break
            su, sv = 0.5 * (s[:, 0] + s[:, 1]), 0.5 * (s[:, 2] + s[:, 3])
            cells = np.concatenate([np.stack([s[:, 0], su, s[:, 2], sv], 1), np.stack([su, s[:, 1], s[:, 2], sv], 1),
                                    np.stack([s[:, 0], su, sv, s[:, 3]], 1), np.stack([su, s[:, 1], sv, s[:, 3]], 1)])
        else:
            leaves.append(cells)
        Lf = np.concatenate(leaves)
        du, dv = Lf[:, 1] - Lf[:, 0], Lf[:, 3] - Lf[:, 2]
        U = (Lf[:, 0, None, None] + du[:, None, None] * x[None, :, None] + 0 * x[None, None, :]).ravel()
        V = (Lf[:, 2, None, None] + dv[:, None, None] * x[None, None, :] + 0 * x[None, :, None]).ravel()
        W = ((du * dv)[:, None, None] * w[None, :, None] * w[None, None, :]).ravel()
        X, n, dS = pan(U, V)
        G = np.array(build.pose_at(spec, 0)[1].apply(X) + build.pose_at(spec, 0)[0])
        B = np.asarray(build.magpy.getB(src, G)).reshape(-1, 3)
        Bl = build.pose_at(spec, 0)[1].inv().apply(B)
        bn = np.einsum("ij,ij->i", Bl, n)
        ok = np.isfinite(bn)
        tot += float(np.sum((bn * dS * W)[ok]))
        tot_abs += float(np.sum((np.linalg.norm(Bl, axis=1) * dS * W)[ok]))
        nev += len(U)
    return tot, tot_abs, nev


def _loop_points(case):
    """closed loop as a function t in [0,1] -> local points, piecewise smooth; returns (fun, breakpoints)"""
    c = np.asarray(case["center"], dtype=float)
    Rf = R.from_quat(case["frame"])
    rad = 0.5 * case["size"]
    if case["shape"] == "circle":
        def f(t):
            ph = 2 * np.pi * t
            return Rf.apply(np.stack([rad * np.cos(ph), rad * np.sin(ph), np.zeros_like(ph)], 1)) + c

        def df(t):
            ph = 2 * np.pi * t
            return Rf.apply(2 * np.pi * np.stack([-rad * np.sin(ph), rad * np.cos(ph), np.zeros_like(ph)], 1))
        f.deriv = df
        return f, [0.0, 1.0]
    k = case["npoly"]
    j = np.asarray(case["jitter"][: 3 * k] + [0.5] * 18, dtype=float)[: 3 * k].reshape(k, 3)
    ang = (np.arange(k) + 0.6 * (j[:, 0] - 0.5)) / k * 2 * np.pi
    V = np.stack([rad * (0.7 + 0.6 * j[:, 1]) * np.cos(ang), rad * (0.7 + 0.6 * j[:, 1]) * np.sin(ang), rad * 0.6 * (j[:, 2] - 0.5)], 1)
    V = Rf.apply(V) + c
    V = np.concatenate([V, V[:1]])

    def f(t):
        s = np.clip(t, 0, 1) * k
        i = np.minimum(s.astype(int), k - 1)
        fr = (s - i)[:, None]
        return V[i] * (1 - fr) + V[i + 1] * fr

    def df(t):
        s = np.clip(t, 0, 1) * k
        i = np.minimum(s.astype(int), k - 1)
        return (V[i + 1] - V[i]) * k
    f.deriv = df
    return f, [i / k for i in range(k + 1)]


def _circulation(case, spec, body, src, theta, ngl):
    """(circ, int|H|dl, evaluations, min distance to surface)"""
    f, brk = _loop_points(case)
    brk = list(brk)
    if body.kind == "magnet":
        ts = np.linspace(0, 1, 4001)
        ins = body.inside(f(ts))
        for i in np.flatnonzero(ins[1:] != ins[:-1]):
            a, b = ts[i], ts[i + 1]
            ia = ins[i]
            for _ in range(60):
                m = 0.5 * (a + b)
                if bool(body.inside(f(np.array([m])))[0]) == ia:
                    a = m
                else:
                    b = m
            brk.append(0.5 * (a + b))
    brk = sorted(set(brk))
    x, w = _gl(ngl)
    pos, rot = build.pose_at(spec, 0)
    tot, tot_abs, nev = 0.0, 0.0, 0
    for a0, b0 in zip(brk[:-1], brk[1:]):
        if b0 - a0 < 1e-14:
            continue
        cells = np.array([[a0, b0]])
        leaves = []
        for _ in range(50):
            if not len(cells):
                break
            mid = 0.5 * (cells[:, 0] + cells[:, 1])
            Pa, Pb, Pm = f(cells[:, 0]), f(cells[:, 1]), f(mid)
            diam = np.linalg.norm(Pb - Pa, axis=1)
            d = body.dist(Pm)
            split = (diam > theta * np.maximum(d, 1e-9 * body.L)) & (diam > 1e-9 * body.L)
            split |= (cells[:, 1] - cells[:, 0]) > 0.05
            leaves.append(cells[~split])
            s = cells[split]
            m2 = 0.5 * (s[:, 0] + s[:, 1])
            cells = np.concatenate([np.stack([s[:, 0], m2], 1), np.stack([m2, s[:, 1]], 1)]) if len(s) else s
        else:
            leaves.append(cells)
        Lf = np.concatenate(leaves)
        dt = Lf[:, 1] - Lf[:, 0]
        T = (Lf[:, 0, None] + dt[:, None] * x[None, :]).ravel()
        W = (dt[:, None] * w[None, :]).ravel()
        X = f(T)
        dX = f.deriv(T)
        G = rot.apply(X) + pos
        H = rot.inv().apply(np.asarray(build.magpy.getH(src, G)).reshape(-1, 3))
        ht = np.einsum("ij,ij->i", H, dX)
        ok = np.isfinite(ht)
        tot += float(np.sum((ht * W)[ok]))
        tot_abs += float(np.sum((np.linalg.norm(H, axis=1) * np.linalg.norm(dX, axis=1) * W)[ok]))
        nev += len(T)
    return tot, tot_abs, nev, len(brk) - len(_loop_points(case)[1])


def _linking(case, spec):
    """Gauss linking integral between the loop and the (closed) current path, local frame"""
    f, _ = _loop_points(case)
    n1 = 1500
    t = (np.arange(n1) + 0.5) / n1
    A = f(t)
    dA = (f(np.clip(t + 0.5 / n1, 0, 1)) - f(np.clip(t - 0.5 / n1, 0, 1)))
    if spec["cls"] == "Circle":
        n2 = 1500
        ph = (np.arange(n2) + 0.5) / n2 * 2 * np.pi
        r0 = spec["diameter"] / 2
        Bp = np.stack([r0 * np.cos(ph), r0 * np.sin(ph), np.zeros(n2)], 1)
        dB = np.stack([-r0 * np.sin(ph), r0 * np.cos(ph), np.zeros(n2)], 1) * (2 * np.pi / n2)
    else:
        V = np.asarray(spec["vertices"], dtype=float)
        pts, dpts = [], []
        for a, b in zip(V[:-1], V[1:]):
            m = 400
            s = (np.arange(m) + 0.5) / m
            pts.append(a + s[:, None] * (b - a))
            dpts.append(np.broadcast_to((b - a) / m, (m, 3)))
        Bp, dB = np.concatenate(pts), np.concatenate(dpts)
    tot = 0.0
    for i in range(0, n1, 100):
        d = A[i:i + 100, None, :] - Bp[None]
        r3 = np.linalg.norm(d, axis=-1) ** 3
        cr = np.cross(dA[i:i + 100, None, :], dB[None])
        tot += float(np.sum(np.einsum("ijk,ijk->ij", d, cr) / r3))
    return tot / (4 * np.pi)


# ----------------------------------------------------------------------------- check


def run_case(case, ctx):
    spec = case["source"]
    cls = spec["cls"]
    body = geom.body_from_spec(spec)
    src = build.build_source(spec)
    out = []
    ctx.label(f"{case['mode']}:{cls}:{case['place']}")
    f_loop = None
    with build.quiet():
        if case["mode"] == "flux":
            # a surface pierced by a wire is outside the quantifier; currents are only used for circulation
            r1 = build.call(_flux, case, spec, body, src, 1.0, 3, 4e-3 * body.L)
            r2 = build.call(_flux, case, spec, body, src, 0.7, 4, 2e-3 * body.L)
            if not (r1.ok and r2.ok):
                e = r1.exc if not r1.ok else r2.exc
                return [Violation({"sub": "call_raised", "mode": "flux", "cls": cls, **exc_sig(e)}, repr(e)[:200])]
            (fa, aa, na), (fb, ab, nb) = r1.value, r2.value
            ctx.label("evaluations_fields", na + nb)
            if ab <= 0:
                return out
            diff = abs(fa - fb)
            if diff > 2e-2 * ab:
                ctx.add_inconclusive()
                ctx.label("quadrature_inconclusive")
                return out
            # does the surface cut the magnet boundary?
            lin = np.linspace(0.02, 0.98, 12)
            pts = np.concatenate([pan(np.tile(lin, 12), np.repeat(lin, 12))[0] for pan in _surface_panels(case)])
            ins = body.inside(pts) if body.kind == "magnet" else np.zeros(len(pts), dtype=bool)
            cuts = bool(np.any(ins) and not np.all(ins))
            if cuts:
                ctx.label("nt:surface_cuts_boundary")
                ctx.mark_nontrivial(case)
                ctx.sample(case, nontrivial=True)
            else:
                ctx.sample(case)
            # surfaces that cut the boundary carry the jump of the tangential B across the cut curve: resolved by brute-force
            # refinement down to h = 2e-3 L, which leaves an error the two settings share; explicit allowance 0.25 * h / size
            cut_allow = 0.25 * (2e-3 * body.L / case["size"]) if cuts else 0.0  # (largest residual seen on the unchanged tree in 2e4 surfaces: 0.09 * h / size)
            if abs(fb) > (1e-6 + cut_allow) * ab + 10 * diff:
                out.append(Violation({"sub": "flux_not_zero", "cls": cls, "cuts_boundary": cuts, "shape": case["shape"],
                                      "magnitude": "O(1)" if abs(fb) > 0.05 * ab else "small"},
                                     f"flux of B through a closed {case['shape']} ({case['place']}, size {case['size'] / body.L:.3g} L) = {fb:.4g}, "
                                     f"int|B|dA = {ab:.4g} (ratio {fb / ab:.3g}); two quadrature settings differ by {diff / ab:.2g}; cuts boundary: {cuts}"))
            return out
        # ---- circulation
        f_loop, _ = _loop_points(case)
        ts = np.linspace(0, 1, 2001)
        P = f_loop(ts)
        sets = geom.special_dist(body, P, all_sets=True)
        sd = sets.get("edge_line", np.full(len(P), np.inf))
        if body.kind in ("current", "dipole") and float(np.min(body.dist(P))) < 1e-2 * body.L:
            ctx.label("loop_too_close_to_wire_skipped")
            return out
        if body.kind == "magnet" and isinstance(body, geom.Polyhedron) and float(np.min(sd)) < 1e-2 * body.L:
            # general position: away from edges (a loop through an edge is a set of measure zero)
            ctx.label("loop_close_to_edge_skipped")
            return out
        r1 = build.call(_circulation, case, spec, body, src, 0.7, 6)
        r2 = build.call(_circulation, case, spec, body, src, 0.45, 10)
        if not (r1.ok and r2.ok):
            e = r1.exc if not r1.ok else r2.exc
            return [Violation({"sub": "call_raised", "mode": "circulation", "cls": cls, **exc_sig(e)}, repr(e)[:200])]
        (ca, aa, na, nca), (cb, ab, nb, ncb) = r1.value, r2.value
        ctx.label("evaluations_fields", na + nb)
        diff = abs(ca - cb)
        if ab <= 0:
            return out
        if diff > 3e-6 * ab:
            ctx.add_inconclusive()
            ctx.label("quadrature_inconclusive")
            return out
        expect, lk = 0.0, 0
        if cls in ("Circle", "Polyline"):
            g = _linking(case, spec)
            if abs(g - round(g)) > 0.02:
                ctx.add_inconclusive()
                ctx.label("linking_number_inconclusive")
                return out
            lk = int(round(g))
            expect = float(spec["current"]) * lk
        nt = ncb > 0 or lk != 0
        if lk != 0:
            ctx.label("nt:loop_links_current")
        if ncb > 0:
            ctx.label("nt:loop_crosses_boundary")
        if nt:
            ctx.mark_nontrivial(case)
            ctx.sample(case, nontrivial=True)
        else:
            ctx.sample(case)
        if abs(cb - expect) > 1e-6 * ab + 100 * diff:
            out.append(Violation({"sub": "circulation", "cls": cls, "links": lk != 0, "crosses_boundary": ncb > 0,
                                  "magnitude": "O(1)" if abs(cb - expect) > 0.02 * ab else "small"},
                                 f"circulation of H around a closed {case['shape']} = {cb:.6g}, expected I*Lk = {expect:.6g} (Lk={lk}); int|H|dl = {ab:.4g}; "
                                 f"boundary crossings {ncb}; two settings differ by {diff / ab:.2g}"))
    return out
