"""C15  Every finite input yields a finite field in bounded time.

Generated: every class (also at the edge of what its validator accepts: zero diameter, zero
excitation, repeated Polyline vertices, zero-area Triangle, zero-volume Tetrahedron, r1 = 0,
360 deg segment), observers ON every special set of the geometry and displaced from it by an
offset ladder (0, a few ulp, log-uniform L*1e-16..1e-3, subnormal), identity and generic pose,
distances up to 1e12 L, batch sizes on both sides of the scalar/vectorised switches.
Oracle: documented shape, finite values (except at the documented singular points), no
exception, and termination under a watchdog (a trip is confirmed in a fresh process).
"""
from __future__ import annotations

import json
import os
import subprocess
import sys

import numpy as np
from hypothesis import strategies as st

from vf import build, core, gen, geom
from vf.core import Violation, exc_sig

ID = "C15"
LEVEL = "exploration"
TECHNIQUE = "property-based testing with a validity predicate (shape, finiteness) and a termination watchdog over special-set observers and an offset ladder (Hypothesis)"
RULE = (
    "case = source (ten classes; with probability 1/3 one edge-valid degeneration) x pose (identity | generic) x batch of "
    "1, 9, 10, 14, 15 or 40 observers, each = base point on a special set (face, edge, corner, axis, centre, wire, edge/"
    "segment extension line, base plane, r=r_i prolonged, phi=phi_j plane, r/r0=0.05, rim) or in a region, displaced by an "
    "offset from the ladder {0, +-1..8 ulp, +-L*10^U(-16,-3), 1e-200, 5e-324, far L*10^U(3,12)} x all four fields. "
    "non-trivial = an observer on a special set or displaced from it by less than 1e-6 L; distinct = canonical hash"
)
ASSUMPTIONS = [
    "documented singular points: a Dipole's own position and the vertices of Triangle-based sources (within rounding distance after the frame transformation) may be non-finite",
    "termination: each library call runs under a 20 s watchdog (normal cost < 50 ms); a trip is re-run alone in a fresh process with 60 s before it is called non-termination",
]
CASE_TIMEOUT = None  # own watchdog

BATCHES = [1, 1, 9, 10, 14, 15, 40]
BASES = ["on_face", "on_edge", "on_corner", "on_axis", "center", "edge_extension", "base_plane", "mantle_ext", "segment_plane",
         "rim_radius", "switch_r005", "near_axis", "inside", "near_out", "generic"]
OFFSETS = ["zero", "zero", "ulp", "ulp", "log", "log", "log", "subnormal", "far"]


def budget(tier):
    return {"examples": 8000 if tier == "quick" else 300000, "fuzz_runs": 0 if tier == "quick" else 60000, "shrink": False}  # (run_case already returns the single failing observer row; Hypothesis shrinking costs minutes per finding here)


@st.composite
def degenerate(draw, spec):
    """one edge-valid degeneration of a spec (still accepted by the validators)"""
    cls = spec["cls"]
    opts = ["zero_excitation"]
    if cls in ("Sphere", "Circle"):
        opts.append("zero_diameter")
    if cls == "Polyline":
        opts += ["repeated_vertex", "single_point_twice"]
    if cls == "Triangle":
        opts.append("zero_area")
    if cls == "Tetrahedron":
        opts.append("zero_volume")
    if cls == "CylinderSegment":
        opts += ["r1_zero", "full_360", "thin_angle"]
    k = draw(st.sampled_from(opts))
    s = dict(spec)
    if k == "zero_excitation":
        for key in ("polarization", "moment"):
            if key in s:
                s[key] = [0.0, 0.0, 0.0]
        if "current" in s:
            s["current"] = 0.0
    elif k == "zero_diameter":
        s["diameter"] = 0.0
    elif k == "repeated_vertex":
        V = [list(v) for v in s["vertices"]]
        i = draw(st.integers(0, len(V) - 1))
        V.insert(i, list(V[i]))
        s["vertices"] = V
    elif k == "single_point_twice":
        s["vertices"] = [list(s["vertices"][0]), list(s["vertices"][0])]
    elif k == "zero_area":
        V = np.array(s["vertices"], dtype=float)
        V[2] = V[0] + 0.5 * (V[1] - V[0])
        s["vertices"] = V.tolist()
    elif k == "zero_volume":
        V = np.array(s["vertices"], dtype=float)
        V[3] = (V[0] + V[1] + V[2]) / 3.0
        s["vertices"] = V.tolist()
    elif k == "r1_zero":
        d = list(s["dimension"])
        d[0] = 0.0
        s["dimension"] = d
    elif k == "full_360":
        d = list(s["dimension"])
        d[4] = d[3] + 360.0
        s["dimension"] = d
    elif k == "thin_angle":
        d = list(s["dimension"])
        d[4] = d[3] + 1e-3
        s["dimension"] = d
    s["degenerate"] = k
    return s


def _ulp(x):
    return float(np.spacing(max(abs(x), 1e-300)))


@st.composite
def case_strategy(draw):
    spec = draw(gen.source_spec(classes=gen.FIELD_CLASSES, max_path=1, pos_extent=2.0))
    if draw(st.integers(0, 2)) == 0:
        spec = draw(degenerate(spec))
    if draw(st.booleans()):
        spec["position"] = [[0.0, 0.0, 0.0]]
        spec["orientation"] = [[0.0, 0.0, 0.0, 1.0]]
    try:
        body = geom.body_from_spec(spec)
    except Exception:  # pylint: disable=broad-except
        body = geom.DipoleBody()
    L = body.L if np.isfinite(body.L) and body.L > 0 else 1.0
    n = draw(st.sampled_from(BATCHES))
    obs = []
    if draw(st.integers(0, 5)) == 0 and isinstance(body, (geom.Polyhedron, geom.CylSeg)) and not getattr(body, "full", False):
        # corner sweep: every vertex of the body exactly (a random pick rarely visits the one corner that matters)
        nv = len(body.V) if isinstance(body, geom.Polyhedron) else 8
        for k in range(min(nv, 16)):
            r = body.vertex_point([(k + 0.5) / nv] + [0.5] * 7)
            if r is not None:
                obs.append({"base": "on_corner", "detail": "vertex_sweep", "offset": "0", "local": [float(x) for x in r[0]]})
        if obs:
            return {"source": spec, "observers": obs}
    for _ in range(n):
        base = draw(st.sampled_from(BASES))
        u = draw(gen.uniforms(8))
        p = None
        detail = ""
        try:
            if base in geom.SPECIAL_KINDS:
                r = geom.special_point(body, base, u)
                if r is not None:
                    p, detail = r
            elif base == "switch_r005" and isinstance(body, geom.CylSeg):
                ph = geom.TWO_PI * u[2]
                p = np.array([0.05 * body.r2 * np.cos(ph), 0.05 * body.r2 * np.sin(ph), (u[3] * 2 - 1) * body.h])
            elif base == "edge_extension":
                e = body.edge_point(u) if hasattr(body, "edge_point") else None
                if e is not None and e[4] is not None:
                    end, sgn = (e[5], 1.0) if u[4] < 0.5 else (e[4], -1.0)
                    p = end + sgn * e[3] * L * geom.logu(u[5], -3, 1)
            elif base in ("base_plane", "mantle_ext", "segment_plane", "rim_radius", "near_axis", "inside", "near_out", "generic"):
                uu = list(u)
                if base == "rim_radius":
                    uu[6] = 0.9  # exactly r = R
                p = geom.observer_in_region(body, base, uu, clear=1e-12)
        except Exception:  # pylint: disable=broad-except
            p = None
        if p is None:
            base = "generic"
            p = (np.array(u[1:4]) * 2 - 1) * 2.0 * L
        off = draw(st.sampled_from(OFFSETS))
        dirn = geom.direction_from_u(u[6], u[7]) if draw(st.booleans()) else np.eye(3)[draw(st.integers(0, 2))] * (1 if draw(st.booleans()) else -1)
        p = np.asarray(p, dtype=float)
        if off == "ulp":
            k = draw(st.integers(1, 8))
            p = p + dirn * k * np.array([_ulp(c) for c in np.maximum(np.abs(p), L * 1e-3)])
            mag = "ulp"
        elif off == "log":
            e = gen.r6(draw(gen.ufloat(-16, -3)))
            p = p + dirn * L * 10.0**e
            mag = f"1e{int(np.floor(e))}"
        elif off == "subnormal":
            p = p + dirn * draw(st.sampled_from([1e-200, 5e-324, 1e-310, 2.2e-308]))
            mag = "subnormal"
        elif off == "far":
            e = gen.r6(draw(gen.ufloat(3, 12)))
            p = p + dirn * L * 10.0**e
            mag = "far"
        else:
            mag = "0"
        obs.append({"base": base, "detail": detail, "offset": mag, "local": [float(x) for x in p]})
    return {"source": spec, "observers": obs}


def strategy(tier):
    return case_strategy()


# ----------------------------------------------------------------------------- execution


def _call_all(spec, glob):
    """-> dict field -> ndarray; raises on exception"""
    src = build.build_source(spec)
    out = {}
    for X in "BHJM":
        out[X] = np.asarray(getattr(build.magpy, "get" + X)(src, glob, squeeze=False))
    return out


def _confirm_hang(case):
    """re-run the case alone in a fresh interpreter with a 60 s limit: True when it does not finish"""
    code = ("import sys, json; sys.path[:0]=[%r, %r]\n"
            "from vf.props import c15\ncase=json.loads(sys.stdin.read())\nc15.plain_run(case)\n" % (core.REPO_ROOT, core.VERIF_ROOT))
    try:
        subprocess.run([sys.executable, "-c", code], input=json.dumps(core.to_jsonable(case)), text=True, capture_output=True,
                       timeout=60, env={**os.environ, "PYTHONPATH": core.REPO_ROOT + os.pathsep + core.VERIF_ROOT})
        return False
    except subprocess.TimeoutExpired:
        return True


def plain_run(case):
    spec = {k: v for k, v in case["source"].items() if k != "degenerate"}
    glob = np.array([build.to_global(spec, o["local"]) for o in case["observers"]])
    with build.quiet():
        _call_all(spec, glob)


def _allowed_singular(spec, body, p_local):
    """documented singular points, within rounding distance after the frame transformation"""
    cls = spec["cls"]
    p = np.asarray(p_local, dtype=float)
    tol = 16 * np.finfo(float).eps * max(float(np.max(np.abs(p))), float(np.max(np.abs(spec["position"]))), body.L)
    if cls == "Dipole":
        return float(np.linalg.norm(p)) <= tol
    if cls in ("Triangle", "Tetrahedron", "TriangularMesh"):
        V = np.asarray(spec["vertices"], dtype=float)
        return float(np.min(np.linalg.norm(V - p, axis=1))) <= tol
    return False


def _offset_class(off, t_rel, identity, on_body=False, rnd=2e-15):
    """by the actual distance t (relative to L) of the observer from its nearest special set, prolongations included:
    exact_on_body / exact_prolongation: on the set in an identity pose (the library sees the same coordinates), on the
    body's own surface or on the prolongation of one of its special sets; tiny: 0 < t <= 1e-7 (also: on the set
    through a generic pose, i.e. within rounding); on_body_within_rounding: on the body's own surface to 2e-15 of the library's normalisation length and not tiny from any other set; small: 1e-7 < t; far: ladder value >= 1e3 L"""
    if off == "far":
        return "far"
    ts = t_rel if isinstance(t_rel, list) else [t_rel]
    if on_body and all(t <= rnd or t > 1e-7 for t in ts) and any(0.0 < t <= rnd for t in ts):
        # on the body's own surface within rounding (a corner of a CylinderSegment has no exact floating-point
        # coordinates) and not a tiny-but-resolvable distance from any special set: the library's surface masks
        # (relative 1e-12..1e-15) are documented to return 0 there
        return "on_body_within_rounding"
    if any(0.0 < t <= 1e-7 for t in ts):
        return "tiny"  # a tiny non-zero distance from at least one special set (e.g. on a face, 1e-14 L from an edge line)
    if any(t == 0.0 for t in ts):
        if not identity:
            return "tiny"
        return "exact_on_body" if on_body is True else "exact_prolongation"
    return "small"


def _rnd(body):
    """'within rounding' relative to L: 2e-15 of the length the library itself normalises by (a CylinderSegment: r2; its
    surface masks accept 1e-14 of that), so that the class stays inside what the library documents as 'on the surface'"""
    ref = body.r2 if isinstance(body, geom.CylSeg) and body.r2 > 0 else body.L
    return 2e-15 * ref / body.L


def run_case(case, ctx):
    spec = {k: v for k, v in case["source"].items() if k != "degenerate"}
    cls = spec["cls"]
    deg = case["source"].get("degenerate", "")
    out = []
    ctx.label(f"class:{cls}")
    if deg:
        ctx.label(f"degenerate:{deg}")
    n = len(case["observers"])
    ctx.label(f"batch:{n}")
    identity = list(spec["orientation"][0]) == [0.0, 0.0, 0.0, 1.0] and not np.any(np.asarray(spec["position"]))
    try:
        body = geom.body_from_spec(spec)
    except Exception:  # pylint: disable=broad-except
        body = geom.DipoleBody()
    rb = build.call(build.build_source, spec)
    if not rb.ok:
        # the validators may reject an edge value: that is C17's subject, nothing to evaluate here
        ctx.label("degenerate_rejected_by_validator")
        return out
    loc = np.array([o["local"] for o in case["observers"]], dtype=float)
    glob = np.array([build.to_global(spec, p) for p in loc])
    sig0 = {"cls": cls, "pose": "identity" if identity else "generic", "vectorised": n >= 10, "degenerate": deg}
    try:
        with core.watchdog(20):
            r = build.call(_call_all, spec, glob)
    except core.CaseTimeout:
        if _confirm_hang(case):
            bases = sorted({o["base"] + ":" + o["offset"] for o in case["observers"]})
            return [Violation({**sig0, "sub": "non_termination"}, f"getB/getH/getJ/getM of {cls} did not return within 60 s; observers {bases[:6]}")]
        ctx.add_inconclusive()
        ctx.label("watchdog_trip_not_confirmed")
        return out
    nt = False
    for o in case["observers"]:
        ctx.label(f"base:{o['base']}")
        ctx.label(f"offset:{o['offset']}")
        if (o["base"] in geom.SPECIAL_KINDS or o["base"] in ("edge_extension", "base_plane", "mantle_ext", "segment_plane", "rim_radius", "switch_r005")) \
                and o["offset"] in ("0", "ulp", "subnormal", "1e-16", "1e-15", "1e-14", "1e-13", "1e-12", "1e-11", "1e-10", "1e-9", "1e-8", "1e-7"):
            nt = True
    if not r.ok:
        out.append(Violation({**sig0, "sub": "exception", **exc_sig(r.exc)},
                             f"{cls} field evaluation raised {type(r.exc).__name__}: {str(r.exc)[:200]}; bases {sorted({o['base'] for o in case['observers']})}"))
    else:
        for X, F in r.value.items():
            if F.shape != (1, 1, 1, n, 3):
                out.append(Violation({**sig0, "sub": "shape", "field": X}, f"shape {F.shape}, expected (1,1,1,{n},3)"))
                continue
            bad = ~np.all(np.isfinite(F.reshape(n, 3)), axis=1)
            for i in np.flatnonzero(bad):
                o = case["observers"][i]
                if _allowed_singular(spec, body, loc[i]):
                    ctx.label("documented_singular_point")
                    continue
                tsp, tname = geom.special_dist(body, loc[i][None], with_name=True)
                out.append(Violation({**sig0, "sub": "nonfinite", "field": X if X in "BH" else "JM", "base": o["base"],
                                      "offset_class": _offset_class(o["offset"], [float(v[0]) / body.L for v in geom.special_dist(body, loc[i][None], all_sets=True).values()], identity,
                                                                    True if float(body.dist(loc[i][None])[0]) == 0.0 else
                                                                    ("rounded" if float(body.dist(loc[i][None])[0]) <= _rnd(body) * body.L else False),
                                                                    _rnd(body)),
                                      "near": tname[0]},
                                     f"{cls} get{X} = {F.reshape(n, 3)[i].tolist()} at local {loc[i].tolist()} (base {o['base']} {o.get('detail', '')}, "
                                     f"offset {o['offset']}, nearest special set {tname[0]} at {float(tsp[0]) / body.L:.3g} L, batch {n})",
                                     case={"source": case["source"], "observers": [o] * (n if n < 10 else 10)}))
                break
    if nt:
        ctx.mark_nontrivial(case)
        ctx.sample(case, nontrivial=True)
    else:
        ctx.sample(case)
    seen, uniq = set(), []
    for v in out:
        if v.sig_key() not in seen:
            seen.add(v.sig_key())
            uniq.append(v)
    return uniq
