"""C17  Malformed inputs are rejected at assignment, valid ones stored faithfully.

Per-attribute validity table (DESIGN.md appendix A, written from the class docstrings) x value
grammar (foreign types, all ranks/lengths, ragged, object arrays, Rotation objects, callables,
and mutations of a valid value).  Two-sided oracle: valid -> accepted, read back equal,
independent copy, same through constructor and setter; invalid -> library input error at the
statement, object unchanged; unspecified -> either, but never a late internal failure.
"""
from __future__ import annotations

import numpy as np
from hypothesis import strategies as st
from scipy.spatial.transform import Rotation as R

from vf import build, gen
from vf.core import Violation, exc_sig

ID = "C17"
LEVEL = "exploration"
TECHNIQUE = "property-based testing with a two-sided validity table as oracle (Hypothesis)"
RULE = (
    "case = class x attribute x route (constructor | setter) x value; value drawn from (a) the valid forms of the "
    "attribute, (b) mutations of a valid value (component/row dropped or added, size negated or zeroed, r1/r2 or "
    "phi1/phi2 swapped, angle range > 360, rank changed), (c) a grammar of foreign values (None, bool, int, float, NumPy "
    "scalars, str, dict, nested sequences of rank 0-4 and length 0-5, ragged, object arrays, Rotation objects, callables). "
    "non-trivial = value of kind (b) or a rank/shape mismatch (not a foreign type); distinct = canonical hash"
)
ASSUMPTIONS = [
    "validity table of DESIGN.md appendix A; values it calls 'unspecified' are only held to the weak clause",
    "a rejected call = MagpylibBadUserInput / MagpylibMissingInput (AttributeError for field_func on built-in sources, ValueError for polarization+magnetization together) with the object byte-identical",
    "no-late-failure: after acceptance getB at a generic observer must not raise a non-magpylib exception",
]
CASE_TIMEOUT = 30


def budget(tier):
    return {"examples": 24000 if tier == "quick" else 600000, "fuzz_runs": 0 if tier == "quick" else 200000}


MAGNET_ATTRS = ["polarization", "magnetization"]
ATTRS = {
    "Cuboid": ["dimension"] + MAGNET_ATTRS,
    "Cylinder": ["dimension"] + MAGNET_ATTRS,
    "CylinderSegment": ["dimension"] + MAGNET_ATTRS,
    "Sphere": ["diameter"] + MAGNET_ATTRS,
    "Tetrahedron": ["vertices"] + MAGNET_ATTRS,
    "Triangle": ["vertices"] + MAGNET_ATTRS,
    "TriangularMesh": ["vertices", "faces"] + MAGNET_ATTRS,
    "Circle": ["diameter", "current"],
    "Polyline": ["vertices", "current"],
    "Dipole": ["moment"],
    "Sensor": ["pixel", "handedness"],
    "CustomSource": ["field_func"],
}
COMMON = ["position", "orientation"]

VALID_BASE = {
    ("Cuboid", "dimension"): [1.0, 2.0, 3.0],
    ("Cylinder", "dimension"): [1.0, 2.0],
    ("CylinderSegment", "dimension"): [0.5, 1.0, 2.0, 10.0, 100.0],
    ("Sphere", "diameter"): 1.5,
    ("Circle", "diameter"): 1.5,
    ("Tetrahedron", "vertices"): [[0.0, 0.0, 0.0], [1.0, 0.0, 0.0], [0.0, 1.0, 0.0], [0.0, 0.0, 1.0]],
    ("Triangle", "vertices"): [[0.0, 0.0, 0.0], [1.0, 0.0, 0.0], [0.0, 1.0, 0.0]],
    ("Polyline", "vertices"): [[0.0, 0.0, 0.0], [1.0, 0.0, 0.0], [1.0, 1.0, 0.0]],
    ("TriangularMesh", "vertices"): [[0.0, 0.0, 0.0], [1.0, 0.0, 0.0], [0.0, 1.0, 0.0], [0.0, 0.0, 1.0]],
    ("TriangularMesh", "faces"): [[0, 2, 1], [0, 1, 3], [1, 2, 3], [0, 3, 2]],
    "polarization": [0.1, 0.2, 0.3],
    "magnetization": [1e5, 2e5, -3e5],
    "current": 2.5,
    "moment": [0.1, 0.2, 0.3],
    "pixel": [[0.0, 0.0, 0.0], [0.1, 0.0, 0.0]],
    "position": [0.1, 0.2, 0.3],
}


def valid_base(cls, attr):
    return VALID_BASE.get((cls, attr), VALID_BASE.get(attr))


# --------------------------------------------------------------------------- value grammar


def enc(kind, **kw):
    return {"t": kind, **kw}


@st.composite
def foreign_value(draw):
    k = draw(st.sampled_from(["none", "bool", "int", "float", "npscalar", "str", "dict", "seq", "seq", "seq", "ragged", "objarr",
                              "rotation", "rotation_n", "callable", "emptyseq", "strseq", "array0d", "complex"]))
    if k == "none":
        return enc("none")
    if k == "bool":
        return enc("bool", v=draw(st.booleans()))
    if k == "int":
        return enc("int", v=draw(st.integers(-3, 5)))
    if k == "float":
        return enc("float", v=draw(st.sampled_from([0.0, -1.5, 2.5, 1e-3, 360.0])))
    if k == "npscalar":
        return enc("npscalar", dtype=draw(st.sampled_from(["float32", "float64", "int64", "int32"])), v=draw(st.sampled_from([1, 2, 3])))
    if k == "str":
        return enc("str", v=draw(st.sampled_from(["abc", "", "right", "x", "1.0"])))
    if k == "dict":
        return enc("dict", v={"a": 1})
    if k == "seq":
        rank = draw(st.integers(1, 4))
        shape = [draw(st.integers(1, 5)) for _ in range(rank)]
        if draw(st.booleans()):
            shape[-1] = 3
        n = int(np.prod(shape))
        vals = [gen.r6(draw(gen.ufloat(0.1, 3.0))) for _ in range(min(n, 12))]
        arr = np.resize(np.array(vals), shape)
        return enc("array", form=draw(st.sampled_from(["list", "tuple", "ndarray", "ndarray_int", "ndarray_f32"])), v=arr.tolist())
    if k == "ragged":
        return enc("ragged", v=draw(st.sampled_from([[[1.0, 2.0, 3.0], [1.0, 2.0]], [[1.0], [2.0, 3.0], [4.0]], [1.0, [2.0, 3.0]]])))
    if k == "objarr":
        return enc("objarr", v=[1.0, 2.0, 3.0])
    if k == "rotation":
        return enc("rotation", quat=draw(gen.quaternion()))
    if k == "rotation_n":
        return enc("rotation", quat=[draw(gen.quaternion()) for _ in range(draw(st.integers(1, 3)))])
    if k == "callable":
        return enc("callable", name=draw(st.sampled_from(["good", "good_none", "bad_names", "bad_return_shape", "bad_return_type", "no_args", "raises"])))
    if k == "emptyseq":
        return enc("array", form="list", v=draw(st.sampled_from([[], [[]], [[], []]])))
    if k == "strseq":
        return enc("array_raw", v=["a", "b", "c"])
    if k == "array0d":
        return enc("array0d", v=2.0)
    return enc("complex", re=1.0, im=2.0)


@st.composite
def mutated_valid(draw, cls, attr):
    base = valid_base(cls, attr)
    if base is None:
        return draw(foreign_value())
    a = np.array(base, dtype=float)
    mut = draw(st.sampled_from(["same", "same", "drop_last", "add_comp", "negate_one", "zero_one", "wrap_list", "flatten", "drop_row",
                                "add_row", "swap01", "swap_last2", "widen", "as_int", "scale", "transpose", "equal01", "equal_last2"]))
    if a.ndim == 0:
        if mut in ("negate_one",):
            return enc("float", v=-float(a), mut=mut)
        if mut == "zero_one":
            return enc("float", v=0.0, mut=mut)
        if mut == "wrap_list":
            return enc("array", form="list", v=[float(a)], mut=mut)
        if mut == "as_int":
            return enc("int", v=int(round(float(a))) or 1, mut=mut)
        return enc("float", v=float(a) * (1.0 if mut == "same" else 1.5), mut="same" if mut == "same" else "scale")
    v = a.copy()
    if mut == "drop_last":
        v = v[..., :-1]
    elif mut == "add_comp":
        v = np.concatenate([v, v[..., :1]], axis=-1)
    elif mut == "negate_one":
        v.flat[draw(st.integers(0, v.size - 1))] *= -1
    elif mut == "zero_one":
        v.flat[draw(st.integers(0, v.size - 1))] = 0.0
    elif mut == "wrap_list":
        v = v[None]
    elif mut == "flatten":
        v = v.ravel()
    elif mut == "drop_row" and v.ndim >= 2:
        v = v[:-1]
    elif mut == "add_row" and v.ndim >= 2:
        v = np.concatenate([v, v[:1] + 0.37], axis=0)
    elif mut == "swap01" and v.ndim == 1 and v.size >= 2:
        v[[0, 1]] = v[[1, 0]]
    elif mut == "swap_last2" and v.ndim == 1 and v.size >= 2:
        v[[-1, -2]] = v[[-2, -1]]
    elif mut == "widen" and v.ndim == 1 and v.size == 5:
        v[4] = v[3] + draw(st.sampled_from([360.0, 360.0000001, 361.0, 720.0]))
    elif mut == "equal01" and v.ndim == 1 and v.size >= 2:
        v[1] = v[0]
    elif mut == "equal_last2" and v.ndim == 1 and v.size >= 2:
        v[-1] = v[-2]
    elif mut == "scale":
        v = v * 1.7
    elif mut == "transpose" and v.ndim == 2:
        v = v.T
    elif mut == "as_int":
        return enc("array", form="ndarray_int", v=np.round(a).astype(int).tolist(), mut=mut)
    else:
        mut = "same"
    return enc("array", form=draw(st.sampled_from(["list", "tuple", "ndarray"])), v=v.tolist(), mut=mut)


@st.composite
def case_strategy(draw):
    cls = draw(st.sampled_from(sorted(ATTRS)))
    attr = draw(st.sampled_from(ATTRS[cls] + COMMON))
    via = draw(st.sampled_from(["ctor", "setter"]))
    if attr == "faces" or (cls == "TriangularMesh" and attr == "vertices"):
        via = "ctor"  # read-only after construction (no setter is documented)
    kind = draw(st.sampled_from(["mutated", "mutated", "foreign"]))
    if attr in ("orientation", "handedness", "field_func"):
        kind = "foreign"
        if attr == "handedness" and draw(st.booleans()):
            return {"cls": cls, "attr": attr, "via": via, "value": enc("str", v=draw(st.sampled_from(["right", "left", "Right", "up", "r", "righ", "eft", "rightleft", "left ", "LEFT", "right-handed"]))), "kind": "mutated"}
    val = draw(mutated_valid(cls, attr)) if kind == "mutated" else draw(foreign_value())
    return {"cls": cls, "attr": attr, "via": via, "value": val, "kind": kind}


def strategy(tier):
    return case_strategy()


# --------------------------------------------------------------------------- decoding

def _callables(name):
    def good(field, observers):
        return np.zeros((len(observers), 3))

    def good_none(field, observers):
        return None

    def bad_names(a, b):
        return np.zeros((len(b), 3))

    def bad_return_shape(field, observers):
        return np.zeros((len(observers), 2))

    def bad_return_type(field, observers):
        return "nope"

    def no_args():
        return None

    def raises(field, observers):
        raise RuntimeError("field function fails")

    return {"good": good, "good_none": good_none, "bad_names": bad_names, "bad_return_shape": bad_return_shape,
            "bad_return_type": bad_return_type, "no_args": no_args, "raises": raises}[name]


def dec(e):
    t = e["t"]
    if t == "none":
        return None
    if t in ("bool", "int", "float", "str", "dict"):
        return e["v"]
    if t == "npscalar":
        return np.dtype(e["dtype"]).type(e["v"])
    if t == "array":
        f = e["form"]
        if f == "list":
            return _copy_nested(e["v"])
        if f == "tuple":
            return _tuplify(e["v"])
        if f == "ndarray_int":
            return np.array(e["v"]).astype(int) if np.size(e["v"]) else np.array(e["v"])
        if f == "ndarray_f32":
            return np.array(e["v"], dtype=np.float32)
        return np.array(e["v"], dtype=float)
    if t == "ragged":
        return _copy_nested(e["v"])
    if t == "objarr":
        return np.array(e["v"], dtype=object)
    if t == "array_raw":
        return list(e["v"])
    if t == "array0d":
        return np.array(e["v"])
    if t == "rotation":
        return R.from_quat(np.array(e["quat"], dtype=float))
    if t == "callable":
        return _callables(e["name"])
    if t == "complex":
        return complex(e["re"], e["im"])
    raise ValueError(t)


def _copy_nested(v):
    return [_copy_nested(x) for x in v] if isinstance(v, list) else v


def _tuplify(v):
    return tuple(_tuplify(x) for x in v) if isinstance(v, list) else v


# --------------------------------------------------------------------------- validity table


def _num_shape(v):
    """shape of a float-compatible, non-ragged array_like; None otherwise"""
    if not isinstance(v, (list, tuple, np.ndarray)):
        return None
    try:
        a = np.array(v, dtype=float)
    except (ValueError, TypeError):
        return None
    return a.shape


def _has_odd_entries(v):
    """bool / complex / object / non-finite entries: float-compatible, but not specified"""
    if isinstance(v, np.ndarray):
        if v.dtype == object or v.dtype == bool or np.iscomplexobj(v):
            return True
        try:
            return not np.all(np.isfinite(v.astype(float)))
        except (TypeError, ValueError):
            return True
    if isinstance(v, (list, tuple)):
        return any(_has_odd_entries(x) for x in v)
    return isinstance(v, (bool, complex, np.bool_)) or (isinstance(v, float) and not np.isfinite(v))


def classify(cls, attr, v, e):
    """-> 'valid' | 'invalid' | 'unspecified'"""
    vec_shapes = {
        "polarization": [(3,)], "magnetization": [(3,)], "moment": [(3,)],
        ("Cuboid", "dimension"): [(3,)], ("Cylinder", "dimension"): [(2,)], ("CylinderSegment", "dimension"): [(5,)],
        ("Tetrahedron", "vertices"): [(4, 3)], ("Triangle", "vertices"): [(3, 3)],
    }
    if attr == "orientation":
        if v is None:
            return "valid"
        if isinstance(v, R):
            return "valid"
        return "invalid"
    if attr == "handedness":
        return "valid" if isinstance(v, str) and v in ("right", "left") else "invalid"
    if attr == "field_func":
        if cls != "CustomSource":
            return "invalid"
        if v is None:
            return "valid"
        if not callable(v):
            return "invalid"
        name = e.get("name")
        return {"good": "valid", "good_none": "valid", "bad_names": "invalid", "no_args": "invalid",
                "bad_return_shape": "invalid", "bad_return_type": "invalid", "raises": "unspecified"}[name]
    if attr in ("diameter", "current"):
        if v is None:
            return "valid"
        if isinstance(v, (bool, np.bool_, complex)):
            return "unspecified"
        if isinstance(v, (int, float, np.integer, np.floating)):
            if not np.isfinite(float(v)):
                return "unspecified"
            if attr == "diameter":
                if v < 0:
                    return "invalid"
                if v == 0:
                    return "unspecified"
            return "valid"
        if isinstance(v, np.ndarray) and v.ndim == 0:
            return "unspecified"
        return "invalid"
    # vector / array attributes
    if v is None:
        if attr == "position":
            return "invalid"
        if attr == "faces" or (cls == "TriangularMesh" and attr == "vertices"):
            return "invalid"  # required constructor arguments
        return "valid"  # documented 'not yet set'
    shp = _num_shape(v)
    if shp is None:
        if isinstance(v, np.ndarray) and v.dtype == object:
            return "unspecified"
        return "invalid"
    if _has_odd_entries(v):
        return "unspecified"
    a = np.array(v, dtype=float)
    if attr == "position":
        if shp == (3,) or (len(shp) == 2 and shp[1] == 3 and shp[0] >= 1):
            return "valid"
        if len(shp) == 2 and shp == (0, 3):
            return "unspecified"
        return "invalid"
    if attr == "pixel":
        if len(shp) >= 1 and shp[-1] == 3 and all(s >= 1 for s in shp):
            return "valid" if len(shp) < 20 else "unspecified"
        return "invalid"
    if attr == "vertices" and cls == "Polyline":
        if len(shp) == 2 and shp[1] == 3 and shp[0] >= 2:
            return "valid"
        return "invalid"
    if cls == "TriangularMesh" and attr == "vertices":
        if len(shp) == 2 and shp[1] == 3 and shp[0] >= 4:
            # faces of the base case index vertices 0..3: any (n>=4,3) float array is a valid vertex list
            return "unspecified" if not np.allclose(a[:4], np.array(VALID_BASE[("TriangularMesh", "vertices")])) else "valid"
        return "invalid"
    if cls == "TriangularMesh" and attr == "faces":
        if len(shp) == 2 and shp[1] == 3 and shp[0] >= 1:
            if np.all(a == np.round(a)) and np.all(a >= 0) and np.all(a < 4):
                base = np.array(VALID_BASE[("TriangularMesh", "faces")])
                return "valid" if a.shape == base.shape and np.array_equal(a, base) else "unspecified"
            if np.any(a >= 4) or np.any(a < -4):
                return "invalid"
            if np.any(a < 0):
                return "unspecified"  # NumPy-style negative indices
            return "unspecified"
        return "invalid"
    allowed = vec_shapes.get((cls, attr), vec_shapes.get(attr))
    if allowed is None:
        return "unspecified"
    if shp not in allowed:
        return "invalid"
    if attr == "dimension":
        if cls in ("Cuboid", "Cylinder"):
            return "valid" if np.all(a > 0) else "invalid"
        r1, r2, h, p1, p2 = a
        if r1 < 0 or r2 <= 0 or h <= 0 or r1 > r2 or p1 > p2 or p2 - p1 > 360:
            return "invalid"
        if r1 == r2 or p1 == p2:
            return "unspecified"
        return "valid"
    if attr == "vertices":
        # coplanar / collinear vertices are unspecified
        if cls == "Tetrahedron" and abs(np.linalg.det(a[1:] - a[0])) < 1e-12:
            return "unspecified"
        if cls == "Triangle" and np.linalg.norm(np.cross(a[1] - a[0], a[2] - a[0])) < 1e-12:
            return "unspecified"
    return "valid"


# --------------------------------------------------------------------------- execution

def _ctor_kwargs(cls, skip=None):
    """valid constructor arguments of a complete object"""
    kw = {}
    for a in ATTRS[cls]:
        if a in ("magnetization", "handedness", "field_func"):
            continue
        b = valid_base(cls, a)
        if b is not None:
            kw[a] = _copy_nested(b) if isinstance(b, list) else b
    if cls == "CustomSource":
        kw["field_func"] = _callables("good")
    if skip:
        for s in skip:
            kw.pop(s, None)
    return kw


def _construct(cls, **kw):
    with build.quiet():
        return build.CLASSES[cls](**kw)


def _readback(obj, attr):
    v = getattr(obj, attr)
    return v


def _probe_field(obj, cls, in_list=False):
    """no-late-failure clause"""
    m = build.magpy
    if cls == "Sensor":
        src = m.misc.Dipole(moment=(1, 2, 3))
        return build.call(m.getB, [src, m.misc.Dipole(moment=(3, 2, 1))] if in_list else src, obj)
    if in_list:
        return build.call(m.getB, [m.misc.Dipole(moment=(1, 2, 3)), obj], (3.3, -2.2, 4.4))
    return build.call(m.getB, obj, (3.3, -2.2, 4.4))


def run_case(case, ctx):
    m = build.magpy
    cls, attr, via = case["cls"], case["attr"], case["via"]
    e = case["value"]
    value = dec(e)
    verdict = classify(cls, attr, value, e)
    ctx.label(f"verdict:{verdict}")
    ctx.label(f"attr:{attr}")
    ctx.label(f"via:{via}")
    out = []
    sig0 = {"cls": cls, "attr": attr, "via": via}

    # keep an independent copy of the input to detect sharing
    is_arr = isinstance(value, np.ndarray) and value.dtype != object and value.ndim > 0 and value.size > 0
    excl = {"polarization": ["magnetization"], "magnetization": ["polarization"]}.get(attr, [])
    if via == "ctor":
        kw = _ctor_kwargs(cls, skip=[attr] + excl)
        kw[attr] = value
        r = build.call(_construct, cls, **kw)
        obj = r.value if r.ok else None
        before = after = None
    else:
        base = build.call(_construct, cls, **_ctor_kwargs(cls))
        if not base.ok:
            raise RuntimeError(f"cannot build base object of {cls}: {base.exc!r}")
        obj = base.value
        before = build.snapshot_obj(obj)

        def f():
            setattr(obj, attr, value)
        r = build.call(f)
        after = build.snapshot_obj(obj)

    accepted = r.ok
    exc_name = None if r.ok else type(r.exc).__name__
    ctx.label("accepted" if accepted else f"rejected:{exc_name}")
    lib_errors = ("MagpylibBadUserInput", "MagpylibMissingInput")
    doc_errors = lib_errors + (("AttributeError",) if attr == "field_func" and cls != "CustomSource" else ())

    if verdict == "valid":
        if not accepted:
            out.append(Violation({**sig0, "sub": "valid_rejected", "exc": exc_name, "vt": e["t"], "mut": e.get("mut", "")},
                                 f"{cls}.{attr} ({via}) rejected documented-valid value {_show(value)}: {exc_name}: {str(r.exc)[:160]}"))
        else:
            # read back equal
            got = build.call(_readback, obj, attr)
            if not got.ok:
                out.append(Violation({**sig0, "sub": "readback_raised", **exc_sig(got.exc)}, repr(got.exc)[:200]))
            elif attr not in ("orientation", "field_func", "handedness") and value is not None:
                want = np.array(value, dtype=float)
                g = got.value
                if attr == "faces":
                    pass
                elif cls == "TriangularMesh" and attr == "vertices":
                    pass
                elif g is None or np.asarray(g, dtype=float).shape != (want.shape if attr != "position" or want.ndim == 1 else want.shape) \
                        and not (attr == "position" and np.asarray(g).shape == np.squeeze(want).shape):
                    out.append(Violation({**sig0, "sub": "readback_shape"}, f"assigned shape {want.shape}, read back {None if g is None else np.asarray(g).shape}"))
                elif not np.array_equal(np.asarray(g, dtype=float).reshape(-1), np.squeeze(want).reshape(-1)):
                    out.append(Violation({**sig0, "sub": "readback_value"}, f"assigned {_show(value)}, read back {_show(g)}"))
                elif isinstance(g, np.ndarray) and g.dtype != np.float64:
                    out.append(Violation({**sig0, "sub": "readback_dtype"}, f"stored dtype {g.dtype}"))
                if is_arr and isinstance(g, np.ndarray) and g.size:
                    if np.shares_memory(g, value):
                        out.append(Violation({**sig0, "sub": "shares_memory_with_input", "dtype": str(value.dtype)},
                                             f"{cls}.{attr} ({via}) stores the caller's array (dtype {value.dtype}) without copying"))
                    else:
                        snap = np.array(g, copy=True)
                        value.flat[0] = value.flat[0] + 1.0
                        g2 = getattr(obj, attr)
                        if not np.array_equal(np.asarray(g2), snap):
                            out.append(Violation({**sig0, "sub": "input_mutation_visible"}, "later in-place change of the caller's array changed the attribute"))
            elif value is None and attr not in ("orientation",) and got.value is not None and attr != "position":
                out.append(Violation({**sig0, "sub": "none_not_stored"}, f"assigned None, read back {_show(got.value)}"))
    elif verdict == "invalid":
        if accepted:
            out.append(Violation({**sig0, "sub": "invalid_accepted", "vt": e["t"], "mut": e.get("mut", ""), "shape": str(_num_shape(value))},
                                 f"{cls}.{attr} ({via}) accepted {_show(value)}, which the documentation excludes"))
        elif exc_name not in doc_errors and not _deliberate(r.exc):
            out.append(Violation({**sig0, "sub": "reject_type", "exc": exc_name, "vt": e["t"]},
                                 f"{cls}.{attr} ({via}) rejected {_show(value)} with {exc_name} instead of the library's input error: {str(r.exc)[:160]}"))
    if not accepted and via == "setter" and before != after:
        d = build.diff_snap(before, after)
        out.append(Violation({**sig0, "sub": "rejected_assignment_changed_object", "what": d, "exc": exc_name},
                             f"{cls}.{attr} = {_show(value)} raised {exc_name} but changed {d}"))
    # no-late-failure (valid and unspecified values that were accepted)
    if accepted and obj is not None and verdict != "invalid":
        complete = True
        if value is None and attr not in ("orientation", "pixel"):
            complete = False
        if attr in MAGNET_ATTRS and value is None:
            complete = False
        # an object left incomplete by None (documented "not yet set") must make getB raise the library's own error,
        # alone and as a later entry of a list of sources; a complete one must not fail with a foreign exception
        for form, p in (("alone", _probe_field(obj, cls)), ("after_other_source", _probe_field(obj, cls, in_list=True))):
            if not p.ok and type(p.exc).__name__ not in lib_errors:
                out.append(Violation({**sig0, "sub": "late_failure", "verdict": verdict, "mut": e.get("mut", ""), "complete": complete, "form": form, **exc_sig(p.exc)},
                                     f"{cls} with {attr}={_show(value)} was accepted but getB ({form}) fails with {type(p.exc).__name__}: {str(p.exc)[:160]}"))
                break
        ctx.label("late_probe" if complete else "late_probe_incomplete_object")
    # same through constructor and setter: compare read-back of the other route (valid values)
    if verdict == "valid" and accepted and attr not in ("faces", "field_func") and not (cls == "TriangularMesh" and attr == "vertices"):
        value2 = dec(e)
        if via == "ctor":
            b2 = build.call(_construct, cls, **_ctor_kwargs(cls))
            if b2.ok:
                r2 = build.call(lambda: setattr(b2.value, attr, value2))
                o2 = b2.value if r2.ok else None
        else:
            kw = _ctor_kwargs(cls, skip=[attr] + excl)
            kw[attr] = value2
            r2 = build.call(_construct, cls, **kw)
            o2 = r2.value if r2.ok else None
        if not r2.ok:
            out.append(Violation({**sig0, "sub": "routes_differ", "other_route_exc": type(r2.exc).__name__},
                                 f"{cls}.{attr}: accepted via {via}, other route raised {type(r2.exc).__name__}: {str(r2.exc)[:120]}"))
        elif o2 is not None and attr != "orientation":
            g1, g2 = getattr(obj, attr), getattr(o2, attr)
            same = (g1 is None and g2 is None) or (g1 is not None and g2 is not None and np.array_equal(np.asarray(g1), np.asarray(g2)))
            if not same:
                out.append(Violation({**sig0, "sub": "routes_differ"}, f"constructor and setter store different values: {_show(g1)} vs {_show(g2)}"))
    nt = case["kind"] == "mutated" or (e["t"] == "array" and _num_shape(value) is not None)
    if nt:
        ctx.mark_nontrivial(case)
        ctx.sample(case, nontrivial=True)
    else:
        ctx.sample(case)
    return out


def _deliberate(exc):
    """True when the exception was raised by an explicit `raise` statement in magpylib code: a deliberate
    input error (e.g. IndexError 'faces indices do not match', ValueError 'magnetization and polarization
    are dependent'), as opposed to an internal failure (NumPy error, TypeError of an operator)."""
    import traceback  # pylint: disable=import-outside-toplevel

    tb = traceback.extract_tb(exc.__traceback__)
    if not tb:
        return False
    last = tb[-1]
    return "magpylib" in last.filename and (last.line or "").strip().startswith("raise")


def _show(v):
    s = repr(v)
    return s if len(s) < 120 else s[:117] + "..."
