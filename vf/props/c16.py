"""C16  TriangularMesh status checks are right and orientation is normalised.

Reference topology from the harness (edge multiset for openness, union-find for
connectedness, construction with margin for self-intersection, signed volume + edge directions
for outward orientation) and a metamorphic relation: the field does not depend on the order of
faces, the winding of individual faces or the numbering of vertices.
"""
from __future__ import annotations

import numpy as np
from hypothesis import strategies as st

from vf import build, gen, geom
from vf.core import Violation, exc_sig

ID = "C16"
LEVEL = "exploration"
TECHNIQUE = "property-based testing against a reference topology model + metamorphic relation over presentations of one mesh (Hypothesis)"
RULE = (
    "case = closed body (convex hull of 5-12 points, box, prism over a convex polygon, prism over an L/U/T/star polygon) of "
    "size 10^U(-2,2) x presentation (random permutation of faces, renumbering of vertices, random subset of flipped faces) "
    "x derivation (none | k faces deleted -> open | two disjoint copies -> disconnected | two interpenetrating boxes -> "
    "self-intersecting with margin | two disjoint boxes as negative). non-trivial = a flipped face together with a "
    "non-identity face permutation, or a non-convex body, or a derived mesh; distinct = canonical hash"
)
ASSUMPTIONS = [
    "ground truth of openness/connectedness from the harness' own edge multiset and union-find over shared vertices",
    "self-intersection ground truth by construction: two boxes offset by a vector that keeps every piercing edge >= 1e-2 of the size away from edges/vertices of the other box (touching configurations are never generated)",
    "field of two presentations of the same closed body agrees to 1e-9 (same face set, same arithmetic up to summation order: 1e-9 of the field scale)",
]
CASE_TIMEOUT = 60


def budget(tier):
    return {"examples": 4000 if tier == "quick" else 100000}


def _fine_box(dim, n):
    """box with every face subdivided into n x n squares (2 n^2 outward triangles per face)"""
    a, b, c = (x / 2 for x in dim)
    verts, index, faces = [], {}, []

    def vid(p):
        key = tuple(round(x, 12) for x in p)
        if key not in index:
            index[key] = len(verts)
            verts.append([float(x) for x in p])
        return index[key]

    half = (a, b, c)
    for ax in range(3):
        u, v = (ax + 1) % 3, (ax + 2) % 3
        for sg in (1.0, -1.0):
            for i in range(n):
                for j in range(n):
                    quad = []
                    for di, dj in ((0, 0), (1, 0), (1, 1), (0, 1)):
                        p = [0.0, 0.0, 0.0]
                        p[ax] = sg * half[ax]
                        p[u] = -half[u] + 2 * half[u] * (i + di) / n
                        p[v] = -half[v] + 2 * half[v] * (j + dj) / n
                        quad.append(vid(p))
                    tri = [[quad[0], quad[1], quad[2]], [quad[0], quad[2], quad[3]]]
                    if sg < 0:
                        tri = [[t[0], t[2], t[1]] for t in tri]
                    faces.extend(tri)
    return verts, faces


@st.composite
def case_strategy(draw):
    size = float(10.0 ** gen.r6(draw(gen.ufloat(-2, 2))))
    derive = draw(st.sampled_from(["none", "none", "none", "open", "disconnected", "intersecting", "disjoint_boxes", "rod_plate", "hull_corner", "shallow_apex"]))
    base = None
    if derive == "hull_corner":
        # very different facet sizes: a coarse box (12 large facets) and a fine convex body (many small facets) that
        # swallows one corner of the box - the crossings lie far from the centroids of the large facets
        d1 = [gen.r6(size * draw(gen.ufloat(0.7, 1.0))) for _ in range(3)]
        sgn = [1 if draw(st.booleans()) else -1 for _ in range(3)]
        corner = np.array([s_ * d_ / 2 for s_, d_ in zip(sgn, d1)])
        rho = 0.18 * min(d1)
        npts = draw(st.integers(14, 40))
        dirs = [geom.direction_from_u(draw(gen.unit_f), draw(gen.unit_f)) for _ in range(npts)]
        dirs += [np.array(v, dtype=float) / np.linalg.norm(v) for v in ((1, 0.2, 0.1), (-1, 0.1, -0.2), (0.2, 1, -0.1), (0.1, -1, 0.2), (-0.2, 0.1, 1), (0.1, -0.2, -1))]
        pts = [(corner + rho * (0.85 + 0.15 * draw(gen.unit_f)) * np.asarray(dv)).tolist() for dv in dirs]
        hm = gen._hull_mesh([[gen.r6(x) for x in p_] for p_ in pts])  # pylint: disable=protected-access
        if hm is None:
            derive = "intersecting"
        else:
            Vh, Fh = hm
            Vb_, Fb_ = gen.box_mesh(d1)
            if draw(st.booleans()):
                V, F = Vh + Vb_, Fh + [[i + len(Vh) for i in f] for f in Fb_]
            else:
                V, F = Vb_ + Vh, Fb_ + [[i + len(Vb_) for i in f] for f in Fh]
            base = {"vertices": V, "faces": F, "mesh_kind": "hull_corner"}
    if derive == "shallow_apex":
        # a shallow interpenetration into a finely meshed face: the apex of a pyramid dips a depth of 3e-4..1e-3 of the
        # size through the top face of a box whose faces are subdivided n x n (the pierced facets are small)
        d1 = [gen.r6(size * draw(gen.ufloat(0.7, 1.0))) for _ in range(3)]
        n = draw(st.integers(5, 10))
        Vf, Ff = _fine_box(d1, n)
        depth = size * 10.0 ** draw(gen.ufloat(-3.5, -3.0))
        ax, ay = (gen.r6(d1[0] * draw(gen.ufloat(-0.3, 0.3))), gen.r6(d1[1] * draw(gen.ufloat(-0.3, 0.3))))
        apex = [ax + 0.0137 * d1[0] / n, ay + 0.0291 * d1[1] / n, d1[2] / 2 - depth]
        hgt, w = 0.4 * size, 0.25 * size
        Vp = [apex, [apex[0] - w, apex[1] - 0.8 * w, apex[2] + hgt], [apex[0] + 0.9 * w, apex[1] - w, apex[2] + hgt], [apex[0] + 0.1 * w, apex[1] + w, apex[2] + hgt]]
        Fp = geom.orient_outward(np.array(Vp), [[0, 1, 2], [0, 2, 3], [0, 3, 1], [1, 3, 2]]).tolist()
        if draw(st.booleans()):
            V, F = Vp + Vf, Fp + [[i + 4 for i in f] for f in Ff]
        else:
            V, F = Vf + Vp, Ff + [[i + len(Vf) for i in f] for f in Fp]
        base = {"vertices": V, "faces": F, "mesh_kind": "shallow_apex"}
    if base is not None:
        pass
    elif derive == "rod_plate":
        # one-way piercing: a thin rod pushed through a plate (only rod edges cross plate faces); either part may come first
        t = gen.r6(size * draw(gen.ufloat(0.05, 0.12)))
        plate = [size, gen.r6(size * draw(gen.ufloat(0.7, 1.0))), t]
        rod = [t, gen.r6(t * draw(gen.ufloat(0.8, 1.2))), size]
        off = [gen.r6(size * draw(gen.ufloat(0.2, 0.3)) * (1 if draw(st.booleans()) else -1)), gen.r6(size * draw(gen.ufloat(-0.04, 0.04))), gen.r6(size * draw(gen.ufloat(-0.1, 0.1)))]
        Vp, Fp = gen.box_mesh(plate)
        Vr, Fr = gen.box_mesh(rod, center=off)
        if draw(st.booleans()):
            V, F = Vr + Vp, Fr + [[i + len(Vr) for i in f] for f in Fp]
        else:
            V, F = Vp + Vr, Fp + [[i + len(Vp) for i in f] for f in Fr]
        base = {"vertices": V, "faces": F, "mesh_kind": "rod_plate"}
    elif derive in ("intersecting", "disjoint_boxes"):
        d1 = [gen.r6(size * draw(gen.ufloat(0.6, 1.0))) for _ in range(3)]
        d2 = [gen.r6(size * draw(gen.ufloat(0.6, 1.0))) for _ in range(3)]
        if derive == "intersecting":
            # offset with |component| in (0.2, 0.45) of the smaller extent, never a 'nice' fraction
            off = [gen.r6((1 if draw(st.booleans()) else -1) * min(a, b) * draw(gen.ufloat(0.21, 0.44))) for a, b in zip(d1, d2)]
        else:
            ax = draw(st.integers(0, 2))
            off = [gen.r6(size * draw(gen.ufloat(-0.3, 0.3))) for _ in range(3)]
            off[ax] = gen.r6((d1[ax] + d2[ax]) / 2 + size * draw(gen.ufloat(0.05, 0.5)))
        V1, F1 = gen.box_mesh(d1)
        V2, F2 = gen.box_mesh(d2, center=off)
        V = V1 + V2
        F = F1 + [[i + len(V1) for i in f] for f in F2]
        base = {"vertices": V, "faces": F, "mesh_kind": derive}
    else:
        g = draw(gen.mesh_geometry(L=size, kinds=("hull", "box", "prism", "nonconvex", "nonconvex")))
        base = {"vertices": g["vertices"], "faces": g["faces"], "mesh_kind": g["mesh_kind"]}
        if derive == "disconnected":
            V = np.asarray(base["vertices"], dtype=float)
            ext = V.max(0) - V.min(0)
            shift = np.array([ext[0] * (1.2 + draw(gen.ufloat(0, 1))), 0.0, 0.0])
            n = len(V)
            base = {"vertices": V.tolist() + (V + shift).tolist(), "faces": base["faces"] + [[i + n for i in f] for f in base["faces"]],
                    "mesh_kind": base["mesh_kind"] + "+copy"}
    nf, nv = len(base["faces"]), len(base["vertices"])
    perm_f = draw(st.permutations(list(range(nf)))) if draw(st.booleans()) else list(range(nf))
    perm_v = draw(st.permutations(list(range(nv)))) if draw(st.booleans()) else list(range(nv))
    flip = [draw(st.integers(0, 3)) == 0 for _ in range(nf)] if draw(st.booleans()) else [False] * nf
    roll = [draw(st.integers(0, 2)) for _ in range(nf)]
    drop = []
    if derive == "open":
        k = draw(st.integers(1, min(3, nf - 3)))
        drop = sorted(draw(st.lists(st.integers(0, nf - 1), min_size=k, max_size=k, unique=True)))
    return {"base": base, "derive": derive, "perm_f": list(perm_f), "perm_v": list(perm_v), "flip": flip, "roll": roll, "drop": drop,
            "polarization": draw(gen.excitation_vec()), "size": size, "probe": draw(gen.uniforms(24)),
            # construct without reorientation, use the mesh once, then ask for the reorientation explicitly
            "late_reorient": draw(st.integers(0, 3)) == 0}


def strategy(tier):
    return case_strategy()


def present(case):
    """vertices, faces of the generated presentation"""
    V = np.asarray(case["base"]["vertices"], dtype=float)
    F = np.asarray(case["base"]["faces"], dtype=int)
    pv = np.asarray(case["perm_v"])  # new index of old vertex i is pv[i]
    V2 = np.empty_like(V)
    V2[pv] = V
    F2 = pv[F]
    out = []
    for new_pos, old in enumerate(case["perm_f"]):
        if old in case["drop"]:
            continue
        f = np.roll(F2[old], case["roll"][old])
        if case["flip"][old]:
            f = f[[0, 2, 1]]
        out.append(f)
    return V2, np.array(out, dtype=int)


def _topology(V, F):
    """harness ground truth: open?, number of connected parts"""
    edges = {}
    for f in F:
        for i in range(3):
            a, b = int(f[i]), int(f[(i + 1) % 3])
            edges[(min(a, b), max(a, b))] = edges.get((min(a, b), max(a, b)), 0) + 1
    is_open = any(c != 2 for c in edges.values())
    parent = list(range(len(V)))

    def find(x):
        while parent[x] != x:
            parent[x] = parent[parent[x]]
            x = parent[x]
        return x

    for f in F:
        ra, rb, rc = find(int(f[0])), find(int(f[1])), find(int(f[2]))
        parent[rb] = ra
        parent[rc] = ra
    used = {find(int(i)) for i in np.unique(F)}
    return is_open, len(used)


def _outward(V, F):
    """every closed connected part has positive signed volume and every edge once per direction"""
    ok_dir = True
    seen = {}
    for f in F:
        for i in range(3):
            a, b = int(f[i]), int(f[(i + 1) % 3])
            seen[(a, b)] = seen.get((a, b), 0) + 1
    for (a, b), c in seen.items():
        if c != 1 or seen.get((b, a), 0) != 1:
            ok_dir = False
            break
    # signed volume per connected part
    _, _ = _topology(V, F)
    parent = {}
    for f in F:
        for v in f:
            parent.setdefault(int(v), int(v))

    def find(x):
        while parent[x] != x:
            parent[x] = parent[parent[x]]
            x = parent[x]
        return x

    for f in F:
        parent[find(int(f[1]))] = find(int(f[0]))
        parent[find(int(f[2]))] = find(int(f[0]))
    vols = {}
    for f in F:
        t = V[f]
        vols[find(int(f[0]))] = vols.get(find(int(f[0])), 0.0) + float(np.dot(t[0], np.cross(t[1], t[2]))) / 6.0
    return ok_dir, all(v > 0 for v in vols.values()), vols


def run_case(case, ctx):
    magpy = build.magpy
    V, F = present(case)
    derive = case["derive"]
    ctx.label("derive:" + derive)
    ctx.label("mesh:" + case["base"]["mesh_kind"].split("+")[0])
    out = []
    pol = case["polarization"]
    late = bool(case.get("late_reorient"))

    def _construct():
        if not late:
            return magpy.magnet.TriangularMesh(vertices=V, faces=F, polarization=pol, check_open="ignore",
                                               check_disconnected="ignore", check_selfintersecting="ignore", reorient_faces="ignore")
        m_ = magpy.magnet.TriangularMesh(vertices=V, faces=F, polarization=pol, check_open="ignore",
                                         check_disconnected="ignore", check_selfintersecting="ignore", reorient_faces="skip")
        with build.quiet():
            m_.getH(np.asarray(V, dtype=float).max(0) * 3.0 + 1.0)  # any use of the mesh before it is put in order
            _ = m_.mesh
            m_.reorient_faces(mode="ignore")
        return m_

    if late:
        ctx.label("late_reorient")
    r = build.call(_construct)
    sig0 = {"derive": derive, "late_reorient": late, "mesh": case["base"]["mesh_kind"].split("_")[0].split("+")[0], "decade": int(np.floor(np.log10(case["size"])))}
    if not r.ok:
        return [Violation({**sig0, "sub": "construction_raised", **exc_sig(r.exc)}, f"{type(r.exc).__name__}: {str(r.exc)[:200]}")]
    mesh = r.value
    want_open, nparts = _topology(V, F)
    want_disc = nparts > 1
    want_int = derive in ("intersecting", "rod_plate", "hull_corner", "shallow_apex")
    if mesh.status_open is not want_open and mesh.status_open != want_open:
        out.append(Violation({**sig0, "sub": "status_open", "expected": want_open}, f"status_open={mesh.status_open}, edge multiset says open={want_open}"))
    if mesh.status_disconnected != want_disc:
        out.append(Violation({**sig0, "sub": "status_disconnected", "expected": want_disc},
                             f"status_disconnected={mesh.status_disconnected}, union-find finds {nparts} part(s)"))
    if derive in ("intersecting", "rod_plate", "hull_corner", "shallow_apex", "disjoint_boxes", "none", "disconnected") and not want_open:
        if mesh.status_selfintersecting != want_int:
            out.append(Violation({**sig0, "sub": "status_selfintersecting", "expected": want_int},
                                 f"status_selfintersecting={mesh.status_selfintersecting}, by construction {want_int} ({case['base']['mesh_kind']})"))
    nt = derive != "none" or case["base"]["mesh_kind"].startswith("nonconvex") or \
        (any(case["flip"]) and case["perm_f"] != sorted(case["perm_f"]))
    # orientation after the default reorientation (closed, not self-intersecting meshes)
    if not want_open and not want_int:
        Fr = np.asarray(mesh.faces)
        ok_dir, ok_vol, vols = _outward(np.asarray(mesh.vertices, dtype=float), Fr)
        if not ok_dir or not ok_vol:
            out.append(Violation({**sig0, "sub": "not_outward_after_reorientation", "consistent": ok_dir, "parts": nparts},
                                 f"after reorientation: consistent winding={ok_dir}, signed volumes per part {list(vols.values())}; "
                                 f"flipped input faces {int(np.sum(case['flip']))} of {len(F)}"))
        # the field does not depend on the presentation: compare with the harness-oriented base presentation
        Vb = np.asarray(case["base"]["vertices"], dtype=float)
        Fb = geom.orient_outward(Vb, case["base"]["faces"])
        ref = build.call(lambda: magpy.magnet.TriangularMesh(vertices=Vb, faces=Fb, polarization=pol, check_open="ignore",
                                                              check_disconnected="ignore", check_selfintersecting="ignore", reorient_faces="ignore"))
        if ref.ok and not out:
            body = geom.Polyhedron(Vb, Fb)
            pts = []
            u = case["probe"]
            for k in range(3):
                for reg in ("near_out", "inside", "generic"):
                    p = geom.observer_in_region(body, reg, u[8 * k: 8 * k + 8] if len(u) >= 8 * k + 8 else u[:8], clear=1e-2)
                    if p is not None:
                        pts.append(p)
            if pts:
                P = np.array(pts)
                ins = body.inside(P)
                for field in ("B", "H", "J"):
                    a = build.call(getattr(magpy, "get" + field), mesh, P)
                    b = build.call(getattr(magpy, "get" + field), ref.value, P)
                    if a.ok and b.ok:
                        fa, fb = np.asarray(a.value).reshape(-1, 3), np.asarray(b.value).reshape(-1, 3)
                        S = float(np.linalg.norm(pol)) * (1.0 if field in "BJ" else 1.0 / magpy.mu_0)
                        dev = np.max(np.abs(fa - fb), axis=1) / S
                        if np.any(dev > 1e-9):
                            k = int(np.argmax(dev))
                            out.append(Violation({**sig0, "sub": "field_depends_on_presentation", "field": field, "inside": bool(ins[k]),
                                                  "magnitude": "O(1)" if dev[k] > 1e-2 else "small"},
                                                 f"{field} differs by {dev[k]:.3g} of the polarization scale between two presentations of the same body "
                                                 f"(inside={bool(ins[k])}); flipped {int(np.sum(case['flip']))} faces, permuted faces={case['perm_f'] != sorted(case['perm_f'])}"))
                            break
                    elif not a.ok:
                        out.append(Violation({**sig0, "sub": "field_raised", **exc_sig(a.exc)}, repr(a.exc)[:200]))
                        break
    if nt:
        ctx.mark_nontrivial(case)
        ctx.sample(case, nontrivial=True)
    else:
        ctx.sample(case)
    return out
