"""C01  Fields equal the magnetostatic integrals they claim to solve.

Oracle: numerical quadrature of the defining integrals (vf/quad.py), compared with the
library through the object-oriented interface (generic pose) and, for a share of the cases,
through magpylib.core in the local frame.  Tolerance: the calibrated envelope of
tolerances.json (per class, per bucket of the distance t to the nearest special set incl. its
prolongation, per bucket of the far-field distance d/L).
"""
from __future__ import annotations

import json
import os

import numpy as np
from hypothesis import strategies as st

from vf import build, core, gen, geom, quad
from vf.core import Violation, exc_sig

ID = "C01"
LEVEL = "exploration"
TECHNIQUE = "property-based testing against a first-principles reference model (adaptive Gauss-Legendre quadrature of the Coulomb / Biot-Savart integrals), region-directed observers (Hypothesis)"
RULE = (
    "case = one source of the ten field classes (geometry/excitation from the zoo, generic or identity pose) with 1-4 "
    "observers, each constructed in a named region (inside, near_in/out, near_edge, near_corner, edge_extension, "
    "near_axis, axis_exact, rim_radius, base_plane, mantle_ext, segment_plane, far, generic) at distance 1e-3..1e3 L "
    "from surface or wire; fields B and H. non-trivial = region other than generic/far, or a special internal branch "
    "(segment case id other than the generic one, cylinder r/r0<0.05, inside); distinct = hash of (class, geometry, observer)"
)
ASSUMPTIONS = [
    "reference = quadtree Gauss-Legendre quadrature with two settings; cases whose two settings differ by > 1e-7 of the scale are counted as oracle-inconclusive",
    "tolerance envelope per class and bucket from tolerances.json (100 x the largest error seen in calibration on the unchanged tree, floor 1e-6, cap 1)",
    "rows where the library returns non-finite values are skipped here (C15 judges finiteness)",
]
CASE_TIMEOUT = 120

_TOL = None
FAR_ALIGNED_UNCHECKED = ("Cylinder", "CylinderSegment", "Tetrahedron", "Triangle", "TriangularMesh", "Cuboid")
WEAK_NEAR_SPECIAL_SETS = ("CylinderSegment", "Tetrahedron", "Triangle", "TriangularMesh")


def tolerances():
    global _TOL  # pylint: disable=global-statement
    if _TOL is None:
        p = os.path.join(core.VERIF_ROOT, "tolerances.json")
        _TOL = json.load(open(p, encoding="utf-8")).get("C01", {}) if os.path.exists(p) else {}
    return _TOL


def t_bucket(t_rel):
    if t_rel <= 0:
        return "exact"
    return str(int(np.clip(np.floor(np.log10(t_rel)), -17, 3)))


def d_bucket(d_rel):
    return str(int(np.clip(np.floor(np.log10(max(d_rel, 1e-30))), -4, 4)))


def _nearest_bucket(table, key):
    """tolerance of bucket `key`; for a bucket never seen in calibration the nearest calibrated one (by decade)"""
    if not table:
        return 1e-6
    if key in table:
        return table[key]
    if key == "exact":
        return 1e-6
    ks = [k for k in table if k != "exact"]
    if not ks:
        return 1e-6
    k = min(ks, key=lambda x: abs(int(x) - int(key)))
    return table[k]


GROSS = 0.5  # what is still asserted in a bucket without an envelope: the right order of magnitude


def tolerance(cls, t_rel, d_rel, near="surface"):
    """envelope for an observer at distance t_rel*L from its nearest special set `near` (prolongations included) and
    d_rel*L from the surface; float('inf') for buckets without an envelope (the library itself is off by more than
    1e-3 there).  C01 itself still asserts GROSS in those buckets (see run_case) and lists what fails even that as the
    open finding KF-C01-4; the other checks, which use this function as a conditioning oracle, assert nothing there."""
    tab = tolerances().get(cls)
    if not tab:
        return 1e-6
    if d_rel >= 3:
        al = "aligned" if t_rel < 1e-3 * d_rel else "free"
        if t_rel < 1e-2 * d_rel and cls in FAR_ALIGNED_UNCHECKED:
            # far away AND within a narrow cone / wedge around the prolongation of a special set (axis, edge line,
            # face plane): both documented weaknesses at once; the deviations there are erratic (1e-4 .. 1e5) and
            # no envelope can be calibrated: only the gross check of run_case applies
            return float("inf")
        v = _nearest_bucket(tab.get("d", {}).get(al, {}), d_bucket(d_rel))
    else:
        v = _nearest_bucket(tab.get("t", {}).get(near, {}), t_bucket(t_rel))
        # classes whose closed forms are documented to lose accuracy "very close to objects, close to the z-axis,
        # at edge extensions": within 1e-5 L of a special set (prolongations included) only gross errors are judged
        if v >= 0 and t_rel <= 1e-5 and cls in WEAK_NEAR_SPECIAL_SETS:
            v = max(v, 0.05)
    return float("inf") if v < 0 else max(v, 1e-6)


def accuracy_band(cls, body, loc):
    """The calibrated band of this library's own accuracy (relative) at local observers `loc`: the C01 envelope, and
    inf where C01 asserts nothing (unchecked buckets; the near-axis cone of a CylinderSegment, open finding KF-C01-1).
    Relation checks (C03, C12, ...) use it as a conditioning oracle: where the value itself is only defined up to this
    band, two routes to it can differ by as much."""
    loc = np.atleast_2d(np.asarray(loc, dtype=float))
    if cls == "Dipole" or cls not in tolerances():
        return np.full(len(loc), 1e-6)
    dist = body.dist(loc) / body.L
    tsp, tname = geom.special_dist(body, loc, with_name=True)
    tsp = tsp / body.L
    out = np.array([tolerance(cls, tsp[i], dist[i], tname[i]) for i in range(len(loc))])
    if isinstance(body, geom.CylSeg) and not body.full and cls == "CylinderSegment":
        raxis = np.hypot(loc[:, 0], loc[:, 1]) / np.maximum(body.L, np.linalg.norm(loc, axis=1))
        out[raxis < 1e-3] = np.inf
    return out


def budget(tier):
    return {"examples": 2400 if tier == "quick" else 60000, "shrink": False, "shards": 48 if tier == "quick" else 128}


@st.composite
def case_strategy(draw):
    spec = draw(gen.source_spec(classes=gen.FIELD_CLASSES, max_path=1, pos_extent=2.0))
    exact_mode = draw(st.integers(0, 2)) == 0
    if exact_mode or draw(st.integers(0, 3)) == 0:
        spec["position"] = [[0.0, 0.0, 0.0]]
        spec["orientation"] = [[0.0, 0.0, 0.0, 1.0]]
    obs = draw(gen.region_observers(spec, n_min=1, n_max=4, clear=1e-3, extra_regions=("axis_exact",)))
    if exact_mode:
        # identity pose: observers exactly ON the prolongation of a special set (edge line beyond the vertex, r = r_i
        # beyond the body, base plane beyond the rim, phi = phi_j plane, axis) - where the special-case branches live
        body = geom.body_from_spec(spec)
        avail = [r for r in ("edge_extension", "mantle_ext", "base_plane", "segment_plane", "axis_exact", "rim_radius") if r in geom.regions_for(body) + ["axis_exact"]]
        for _ in range(draw(st.integers(1, 2))):
            if not avail:
                break
            reg = draw(st.sampled_from(avail))
            u = draw(gen.uniforms(8))
            u[6] = 0.9  # zero transverse offset / exactly r = R
            p = geom.observer_in_region(body, reg, u, clear=1e-3)
            if p is not None:
                obs.append({"region": reg + "_exact", "local": [float(x) for x in p]})
    return {"source": spec, "observers": obs, "route": draw(st.sampled_from(["oo"] * 9 + ["core"]))}


def strategy(tier):
    return case_strategy()


def self_test():
    quad.self_test(build.magpy.mu_0)


def _branch(spec, body, p):
    """internal branch id of the library's piecewise formula that this observer selects"""
    cls = spec["cls"]
    if cls == "CylinderSegment" and not body.full:
        try:
            from magpylib._src.fields.field_BH_cylinder_segment import determine_cases  # pylint: disable=import-outside-toplevel

            r, phi, z = np.hypot(p[0], p[1]), np.arctan2(p[1], p[0]), p[2]
            ids = determine_cases(np.array([r]), np.array([phi]), np.array([z]), np.array([body.r1]), np.array([body.phi1]), np.array([-body.h / 2]))
            return "segcase:" + str(int(np.ravel(ids)[0]))
        except Exception:  # pylint: disable=broad-except
            return "segcase:?"
    if cls == "Cylinder":
        return "cyl:small_r" if np.hypot(p[0], p[1]) / body.r2 < 0.05 else "cyl:general"
    if cls == "Cuboid":
        return "cub:octant" + "".join("+" if c >= 0 else "-" for c in p)
    return None


def _core_route(spec, field, p_local):
    from vf.props import c07  # pylint: disable=import-outside-toplevel

    return c07._core(spec["cls"], field, spec, p_local)  # pylint: disable=protected-access


def run_case(case, ctx):
    magpy = build.magpy
    mu0 = magpy.mu_0
    spec = case["source"]
    cls = spec["cls"]
    body = geom.body_from_spec(spec)
    loc = np.array([o["local"] for o in case["observers"]], dtype=float)
    out = []
    Href, Bref, eH, eB = quad.reference_HB(spec, loc, mu0)
    src = build.build_source(spec)
    _, rot = build.pose_at(spec, 0)
    glob = np.array([build.to_global(spec, p) for p in loc])
    S = build.field_scale(spec)
    dist = body.dist(loc) / body.L
    tsp, tname = geom.special_dist(body, loc, with_name=True)
    tsp = tsp / body.L
    inside = body.inside(loc) if body.kind == "magnet" else np.zeros(len(loc), dtype=bool)
    # scopes of the open findings (known_findings.json): CylinderSegment close to its axis; TriangularMesh / Tetrahedron
    # observers coplanar with two or more face planes (edge lines), where the mesh inside test is unreliable
    # (distance to the axis relative to max(L, distance from the centre): a cone around the axis)
    raxis = (np.hypot(loc[:, 0], loc[:, 1]) / np.maximum(body.L, np.linalg.norm(loc, axis=1))) if isinstance(body, geom.CylSeg) \
        else np.full(len(loc), np.inf)
    from vf.props.c02 import _coplanar  # pylint: disable=import-outside-toplevel

    coplanar = [_coplanar(body, p) for p in loc]
    rec_dir = os.environ.get("VERIF_C01_RECORD")
    for field, ref, eref, s_near in (("B", Bref, eB, S if cls not in ("Circle", "Polyline", "Dipole") else S * mu0),
                                     ("H", Href, eH, (S / mu0) if cls not in ("Circle", "Polyline", "Dipole") else S)):
        if case["route"] == "core":
            vals = []
            for p in loc:
                r = build.call(_core_route, spec, field, p)
                if not r.ok:
                    out.append(Violation({"sub": "core_raised", "cls": cls, **exc_sig(r.exc)}, repr(r.exc)[:200]))
                    return out
                vals.append(r.value)
            if any(v is None for v in vals):
                lib_loc = None
            else:
                lib_loc = np.array(vals, dtype=float)
        else:
            lib_loc = None
        if lib_loc is None:
            r = build.call(getattr(magpy, "get" + field), src, glob, squeeze=False)
            if not r.ok:
                out.append(Violation({"sub": "call_raised", "cls": cls, **exc_sig(r.exc)}, repr(r.exc)[:200]))
                return out
            lib_loc = rot.inv().apply(np.asarray(r.value).reshape(-1, 3))
        for i, o in enumerate(case["observers"]):
            reg = o["region"]
            far = min(1.0, (1.0 / max(dist[i], 1e-30)) ** 3)
            scale = max(float(np.linalg.norm(ref[i])), 1e-9 * s_near * far, 1e-300)
            if field == "B":
                ctx.label(f"{cls}:{reg}")
                br = _branch(spec, body, loc[i])
                if br:
                    ctx.label(br)
                ctx.label("inside" if inside[i] else "outside")
                nt = reg not in ("generic", "far") or inside[i] or (br is not None and br in ("cyl:small_r",))
                if nt:
                    ctx.mark_nontrivial({"cls": cls, "geom": {k: spec[k] for k in build.GEOM_KEYS if k in spec}, "obs": o["local"]})
            if not np.all(np.isfinite(lib_loc[i])):
                ctx.label("nonfinite_row_skipped")
                continue
            if eref[i] > 1e-7 * scale:
                ctx.add_inconclusive()
                ctx.label("oracle_inconclusive")
                continue
            err = float(np.linalg.norm(lib_loc[i] - ref[i])) / scale
            tol = float("inf") if os.environ.get("VERIF_C01_CALIB") else tolerance(cls, tsp[i], dist[i], tname[i])
            if rec_dir:
                with open(os.path.join(rec_dir, f"rec_{os.getpid()}.jsonl"), "a", encoding="utf-8") as fh:
                    fh.write(json.dumps({"cls": cls, "field": field, "region": reg, "t": float(tsp[i]), "near": tname[i], "d": float(dist[i]),
                                         "err": err, "route": case["route"], "inside": bool(inside[i]),
                                         "raxis": float(min(raxis[i], 1e30)), "coplanar": coplanar[i]}) + "\n")
            weak = not np.isfinite(tol)
            if weak and not os.environ.get("VERIF_C01_CALIB"):
                # no envelope here (the library was off by more than 1e-3 in calibration): only the order of magnitude is asserted
                ctx.label("bucket_without_envelope_gross_check_only")
                tol = GROSS
            if err > tol:
                out.append(Violation(
                    {"sub": "field_differs_from_integral", "cls": cls, "region": reg, "field": field, "route": case["route"], "bucket_without_envelope": weak,
                     "t_bucket": t_bucket(tsp[i]), "near": tname[i], "d_bucket": d_bucket(dist[i]),
                     "close_to_axis": bool(raxis[i] < 1e-3), "coplanar_face_planes": coplanar[i], "magnitude": "O(1)" if err > 1e-2 else ("1e-4..1e-2" if err > 1e-4 else "small")},
                    f"{cls} {field} at local {loc[i].tolist()} (region {reg}, d/L={dist[i]:.3g}, t/L={tsp[i]:.3g}, inside={bool(inside[i])}): "
                    f"library {lib_loc[i].tolist()} vs quadrature {ref[i].tolist()}: rel. deviation {err:.3g} > tolerance {tol:.3g} "
                    f"(oracle two-setting difference {eref[i] / scale:.1e})",
                    case={"source": spec, "observers": [o], "route": case["route"]}))
    ctx.sample(case, nontrivial=any(o["region"] not in ("generic", "far") for o in case["observers"]))
    seen, uniq = set(), []
    for v in out:
        if v.sig_key() not in seen:
            seen.add(v.sig_key())
            uniq.append(v)
    return uniq
