"""C03  Fields are covariant under rigid motion of the whole setup.

Metamorphic oracle: the moved setup is built twice - (A) by assigning position = Q p_i + t,
orientation = Q R_i, (B) by calling rotate(Q, anchor=0) and move(t) on the object or on the
(nested) Collection that holds it - observers are moved the same way, and the returned field
must be Q F for plain-position observers and F for Sensors that moved along.
"""
from __future__ import annotations

import numpy as np
from hypothesis import strategies as st
from scipy.spatial.transform import Rotation as R

from vf import build, core, gen, geom
from vf.core import Violation, exc_sig

ID = "C03"
LEVEL = "exploration"
TECHNIQUE = "metamorphic property-based testing: rigid motion of source (path) and observers, two constructions of the moved setup (Hypothesis)"
RULE = (
    "case = one source (any of the ten classes, path length 1-4, static / translating / rotating) optionally inside 1-2 "
    "levels of Collections, 2-6 observers (plain positions or Sensors with pixels) with clearance 1e-3 L at every path "
    "index, a rotation Q from the pool (generic, identity both signs, multiples of 90 deg, tiny, near pi) and a "
    "translation t up to 100 L; fields B,H,J. non-trivial = Q generic (not identity / 90-degree multiple) and (path "
    "length >= 2 with a rotating path, or the source sits in a nested collection, or Sensor observers); distinct = hash"
)
ASSUMPTIONS = [
    "tolerance 1e-9 of the field magnitude plus 20x what a displacement of the observer by the rounding of the motion (8 eps (|t|+|obs|+|pos|)) does to the unmoved field",
    "SciPy Rotation trusted for the rotation algebra",
]
CASE_TIMEOUT = 60


def budget(tier):
    return {"examples": 2500 if tier == "quick" else 100000}


@st.composite
def case_strategy(draw):
    spec = draw(gen.source_spec(classes=gen.FIELD_CLASSES, max_path=4, pos_extent=2.0))
    body = geom.body_from_spec(spec)
    L = body.L
    npath = len(spec["position"])
    nobs = draw(st.integers(2, 6))
    pts = []
    for _ in range(nobs):
        reg = draw(st.sampled_from(["near_out", "near_in", "inside", "generic", "near_edge", "far", "near_axis", "rim_radius"]))
        u = draw(gen.uniforms(8))
        m0 = draw(st.integers(0, npath - 1))
        p = geom.observer_in_region(body, reg if reg in geom.regions_for(body) else "generic", u, clear=1e-3)
        if p is None:
            p = geom.observer_in_region(body, "generic", u, clear=1e-3)
        if p is None:
            continue
        g = build.to_global(spec, p, m0)
        # clearance at every path index (the observer is fixed in space while the source moves)
        ok = all(float(body.dist(build.to_local(spec, g, m)[None])[0]) >= 1e-3 * L for m in range(npath))
        if not ok:
            g = build.to_global(spec, np.array([2.3, -1.9, 2.7]) * L * (1 + npath), 0)
            ok = all(float(body.dist(build.to_local(spec, g, m)[None])[0]) >= 1e-3 * L for m in range(npath))
            if not ok:
                continue
            reg = "generic"
        pts.append({"region": reg, "global": [float(x) for x in g]})
    if not pts:
        pts.append({"region": "generic", "global": [float(x) for x in build.to_global(spec, np.array([9.1, 7.3, -8.2]) * L * 5, 0)]})
    okind = draw(st.sampled_from(["array", "array", "sensors", "sensor_pixels"]))
    q = draw(gen.quaternion())
    t = [gen.r6(draw(gen.ufloat(-1, 1)) * L * draw(st.sampled_from([1.0, 1.0, 10.0, 100.0]))) for _ in range(3)]
    depth = draw(st.sampled_from([0, 0, 1, 2]))
    colls = [draw(gen.pose_path(max_len=1, extent=2.0)) for _ in range(depth)]
    sens_ori = draw(gen.quaternion())
    return {"source": spec, "observers": pts, "obs_kind": okind, "Q": q, "t": t, "collections": colls, "setter_order": draw(st.integers(0, 1)),
            "sensor_orientation": sens_ori, "handedness": draw(st.sampled_from(["right", "right", "left"])),
            "field": draw(st.sampled_from(["B", "H", "B", "H", "J"]))}


def strategy(tier):
    return case_strategy()


def _observers(case, moved, method):
    """build observers; moved=False: original; moved=True: transformed by assignment ('assign') or by methods ('ops')"""
    magpy = build.magpy
    Q = R.from_quat(case["Q"])
    t = np.asarray(case["t"], dtype=float)
    P = np.array([o["global"] for o in case["observers"]], dtype=float)
    kind = case["obs_kind"]
    if kind == "array":
        return (Q.apply(P) + t) if moved else P
    r0 = R.from_quat(case["sensor_orientation"])
    out = []
    pix = None if kind == "sensors" else [[0.0, 0.0, 0.0], [0.01, -0.02, 0.015]]
    for p in P:
        if not moved:
            out.append(magpy.Sensor(position=p, orientation=r0, pixel=pix, handedness=case["handedness"]))
        elif method == "assign":
            out.append(magpy.Sensor(position=Q.apply(p) + t, orientation=Q * r0, pixel=pix, handedness=case["handedness"]))
        else:
            s = magpy.Sensor(position=p, orientation=r0, pixel=pix, handedness=case["handedness"])
            s.rotate(Q, anchor=0)
            s.move(t)
            out.append(s)
    return out


def run_case(case, ctx):
    magpy = build.magpy
    spec = case["source"]
    cls = spec["cls"]
    field = case["field"]
    fn = getattr(magpy, "get" + field)
    Q = R.from_quat(case["Q"])
    t = np.asarray(case["t"], dtype=float)
    out = []
    ctx.label(f"class:{cls}")
    ctx.label(f"obs:{case['obs_kind']}")
    ctx.label(f"depth:{len(case['collections'])}")

    src0 = build.build_source(spec)
    obs0 = _observers(case, False, None)
    r0 = build.call(fn, src0, obs0, squeeze=False)
    if not r0.ok:
        return [Violation({"sub": "call_raised", "cls": cls, **exc_sig(r0.exc)}, repr(r0.exc)[:200])]
    F0 = np.asarray(r0.value)  # (1, M, K, npix.., 3)
    is_array = case["obs_kind"] == "array"
    want = Q.apply(F0.reshape(-1, 3)).reshape(F0.shape) if is_array else F0

    # noise allowance: what the rounding of the motion does to the unmoved field
    P = np.array([o["global"] for o in case["observers"]], dtype=float)
    mag_in = float(np.linalg.norm(t)) + float(np.max(np.abs(P))) + float(np.max(np.abs(spec["position"])))

    def noise():
        nz = np.zeros_like(F0)
        delta = 8 * np.finfo(float).eps * mag_in
        for rel in (1.0, 64.0, 4096.0):
            for ax in range(3):
                for sg in (1.0, -1.0):
                    d = np.zeros(3)
                    d[ax] = sg * delta * rel
                    if is_array:
                        o2 = P + d
                    else:
                        o2 = _observers({**case, "observers": [{"global": list(p + d)} for p in P]}, False, None)
                    r = build.call(fn, src0, o2, squeeze=False)
                    if r.ok:
                        with np.errstate(invalid="ignore"):
                            dv = np.abs(np.asarray(r.value) - F0)
                        # a non-finite value next door: the formula is pathological there (C15), no comparison possible
                        nz = np.maximum(nz, np.where(np.isfinite(dv), dv, np.inf))
        return nz

    nz_cache = []
    # documented loss of precision at large distances: c_far * eps * (d/L)^3 per (path index, observer)
    body = geom.body_from_spec(spec)
    npath = F0.shape[1]
    dl = np.array([[float(body.dist(build.to_local(spec, p, m)[None])[0]) / body.L for p in P] for m in range(npath)])
    far = 100.0 * np.finfo(float).eps * dl**3  # (M, K)
    # where the library's own accuracy band (C01 envelope) is wide, the value is only defined up to that band and the
    # two routes may differ by as much; where C01 asserts nothing (inf) neither does this check
    from vf.props import c01  # pylint: disable=import-outside-toplevel

    band = np.array([c01.accuracy_band(cls, body, np.array([build.to_local(spec, p, m) for p in P])) for m in range(npath)])
    band = np.where(band > 1e-5, 3.0 * band, 0.0)
    if np.any(band > 0):
        ctx.label("observer_in_wide_accuracy_band")
    far = far + band

    def _far_like(F):
        """broadcast (M,K) to the result shape (1, M, K or 1, ..., 3)"""
        if is_array:
            return far.reshape((1, npath, 1, len(P), 1)) * np.ones_like(F)
        shape = [1, npath, len(P)] + [1] * (F.ndim - 3)
        return far.reshape(shape) * np.ones_like(F)

    # cylinder-type routines (iterative elliptic integrals, polarization angles) have an own accuracy of ~1e-8
    base = 1e-7 if cls in ("CylinderSegment", "Cylinder") else 1e-9

    def compare(label, F1):
        if F1.shape != want.shape:
            out.append(Violation({"sub": "shape", "variant": label, "cls": cls}, f"{F1.shape} vs {want.shape}"))
            return
        rowmag = np.max(np.abs(want), axis=-1, keepdims=True)
        fs = build.field_scale(spec) * (1.0 if field in "BJ" else 1.0 / magpy.mu_0)
        sc = np.maximum(rowmag, 1e-12 * fs) * np.ones(3)
        finite = np.isfinite(F1) & np.isfinite(want)
        if not np.all(finite):
            ctx.label("nonfinite_elements_skipped")  # finiteness is C15's subject
        with np.errstate(invalid="ignore"):
            bad = ~(np.abs(F1 - want) <= (base + _far_like(want)) * sc) & finite
        if np.any(bad):
            if not nz_cache:
                nz = noise()
                nz_cache.append(Q.apply(nz.reshape(-1, 3)).reshape(nz.shape) if False else nz)
            nzr = np.max(nz_cache[0], axis=-1, keepdims=True) * np.ones(3)  # rotation mixes components: use the row maximum
            with np.errstate(invalid="ignore"):
                bad = ~(np.abs(F1 - want) <= (base + _far_like(want)) * sc + 20 * nzr) & finite
            if not np.any(bad):
                ctx.label("illconditioned_tolerated")
        if np.any(bad):
            err = float(np.max((np.abs(F1 - want) / sc)[bad]))
            m_bad = int(np.argwhere(bad)[0][1])
            out.append(Violation({"sub": "not_covariant", "variant": label, "cls": cls, "field": field, "obs": case["obs_kind"],
                                  "magnitude": "O(1)" if err > 1e-3 else "small", "depth": len(case["collections"]),
                                  "path": spec.get("path_kind", "static")},
                                 f"{label}: moved setup gives a field that differs from the rotated original by {err:.3g} (relative) at path index "
                                 f"{m_bad} of {F0.shape[1]}; class {cls}, field {field}, Q={case['Q']}, t={case['t']}, collections={len(case['collections'])}"))

    # (A) assignment of the moved poses
    specA = dict(spec)
    pos = np.asarray(spec["position"], dtype=float)
    specA["position"] = (Q.apply(pos) + t).tolist()
    specA["orientation"] = (Q * R.from_quat(np.asarray(spec["orientation"], dtype=float))).as_quat().reshape(-1, 4).tolist()
    srcA = build.build_source(specA)
    rA = build.call(fn, srcA, _observers(case, True, "assign"), squeeze=False)
    if not rA.ok:
        out.append(Violation({"sub": "call_raised", "variant": "assign", "cls": cls, **exc_sig(rA.exc)}, repr(rA.exc)[:200]))
    else:
        compare("assign", np.asarray(rA.value))

    # (B) rotate / move through the API, on the object or on the collection that holds it
    srcB = build.build_source(spec)
    top = srcB
    for pp in case["collections"]:
        c = magpy.Collection(top)
        c._position = np.asarray(pp["position"], dtype=float)  # pylint: disable=protected-access
        c._orientation = R.from_quat(np.asarray(pp["orientation"], dtype=float))  # pylint: disable=protected-access
        top = c
    rb = build.call(lambda: top.rotate(Q, anchor=0).move(t))
    if not rb.ok:
        out.append(Violation({"sub": "call_raised", "variant": "ops", "cls": cls, **exc_sig(rb.exc)}, repr(rb.exc)[:200]))
    else:
        rB = build.call(fn, srcB, _observers(case, True, "ops"), squeeze=False)
        if not rB.ok:
            out.append(Violation({"sub": "call_raised", "variant": "ops", "cls": cls, **exc_sig(rB.exc)}, repr(rB.exc)[:200]))
        else:
            compare("ops", np.asarray(rB.value))

    # (C) rotation of the holding collection about its own position (anchor=None), then move: the rigid
    #     motion x -> Q (x - a) + a + t with a = position of the top collection
    if case["collections"]:
        srcC = build.build_source(spec)
        topC = srcC
        for pp in case["collections"]:
            c = magpy.Collection(topC)
            c._position = np.asarray(pp["position"], dtype=float)  # pylint: disable=protected-access
            c._orientation = R.from_quat(np.asarray(pp["orientation"], dtype=float))  # pylint: disable=protected-access
            topC = c
        a = np.asarray(case["collections"][-1]["position"][0], dtype=float)
        rc = build.call(lambda: topC.rotate(Q).move(t))
        if not rc.ok:
            out.append(Violation({"sub": "call_raised", "variant": "ops_own_anchor", "cls": cls, **exc_sig(rc.exc)}, repr(rc.exc)[:200]))
        else:
            tC = a - Q.apply(a) + t
            caseC = {**case, "t": tC.tolist()}
            rC = build.call(fn, srcC, _observers(caseC, True, "assign"), squeeze=False)
            if not rC.ok:
                out.append(Violation({"sub": "call_raised", "variant": "ops_own_anchor", "cls": cls, **exc_sig(rC.exc)}, repr(rC.exc)[:200]))
            else:
                compare("ops_own_anchor", np.asarray(rC.value))

    # (D) the pose setters of the holder (the object itself or the top collection): position = Q p + t and
    #     orientation = Q R.  For a collection the setters carry the children along (rotation about the collection's
    #     own position, translation by the change of position), which composes to the same rigid motion x -> Q x + t
    srcD = build.build_source(spec)
    topD = srcD
    for pp in case["collections"]:
        c = magpy.Collection(topD)
        c._position = np.asarray(pp["position"], dtype=float)  # pylint: disable=protected-access
        c._orientation = R.from_quat(np.asarray(pp["orientation"], dtype=float))  # pylint: disable=protected-access
        topD = c

    def _set_pose():
        if case.get("setter_order", 0) == 0:
            topD.position = Q.apply(np.atleast_2d(topD.position)) + t
            topD.orientation = Q * topD.orientation
        else:
            topD.orientation = Q * topD.orientation
            topD.position = Q.apply(np.atleast_2d(topD.position)) + t

    # (a collection setter assigns the collection's path length to its members, so the variant is only a rigid motion
    #  when the holder is the object itself or everything is static)
    applicable = not case["collections"] or len(spec["position"]) == 1
    rd = build.call(_set_pose) if applicable else None
    if rd is None:
        pass
    elif not rd.ok:
        out.append(Violation({"sub": "call_raised", "variant": "setters", "cls": cls, **exc_sig(rd.exc)}, repr(rd.exc)[:200]))
    else:
        rD = build.call(fn, srcD, _observers(case, True, "assign"), squeeze=False)
        if not rD.ok:
            out.append(Violation({"sub": "call_raised", "variant": "setters", "cls": cls, **exc_sig(rD.exc)}, repr(rD.exc)[:200]))
        else:
            compare("setters", np.asarray(rD.value))

    q = np.abs(np.asarray(case["Q"], dtype=float))
    generic_q = not (np.any(np.isclose(q, 1.0, atol=1e-6)) or np.allclose(np.sort(q)[-2:], np.sqrt(0.5), atol=1e-6))
    nt = generic_q and ((len(spec["position"]) >= 2 and spec.get("path_kind") == "rotate") or len(case["collections"]) >= 1 or not is_array)
    if generic_q:
        ctx.label("Q:generic")
    if nt:
        ctx.mark_nontrivial(case)
        ctx.sample(case, nontrivial=True)
    else:
        ctx.sample(case)
    return out
