"""C11  The collection tree stays a consistent forest under any history.

State machine over a pool of sensors, sources and collections.  After every step - whether
the call returned or raised - the structural invariants of the property are checked on the
real objects; after steps that succeed and for which the documented effect is unambiguous the
structure is additionally compared with a reference model (parent map + ordered child lists).
"""
from __future__ import annotations

import sys

from hypothesis import strategies as st
from hypothesis.stateful import initialize, rule

from vf import build, machine
from vf.core import Violation

ID = "C11"
LEVEL = "exploration"
TECHNIQUE = "model-based stateful property testing (Hypothesis RuleBasedStateMachine): structural invariants after every step incl. rejected calls + reference forest model"
RULE = (
    "history = pool of 3 sensors, 3 sources, 4 collections (growing to 16 objects by copy, '+', Collection(...)) and "
    "1-40 operations: add(*objs, override_parent), remove(*objs, recursive, errors), obj.parent = coll|None|garbage, "
    "coll.children/.sources/.sensors/.collections = [...], a + b, Collection(*objs), copy(). Argument lists contain, with "
    "set probabilities, duplicates, the collection itself, one of its ancestors, objects that already have a parent, "
    "wrong-typed entries and non-objects at a LATE position, so that calls are rejected part-way. non-trivial = the "
    "history contains a call rejected at argument index >= 1, or an override_parent transfer between collections, or a "
    "setter replacing existing children; distinct = canonical hash of the history"
)
ASSUMPTIONS = [
    "after a call that raises only the structural invariants are required (consistency, not rollback)",
    "reference model applies the documented effects of add/remove/parent=/setters/+/copy; it is resynchronised from the "
    "objects after calls it does not define (e.g. duplicates in an argument list)",
]
CASE_TIMEOUT = 30
MAX_POOL = 16


def budget(tier):
    return {"examples": 1500 if tier == "quick" else 50000, "steps": 40}


# ----------------------------------------------------------------------------- state

KINDS = ["Sensor", "Sensor", "Sensor", "Cuboid", "Circle", "Dipole", "Collection", "Collection", "Collection", "Collection"]


def _mk(kind):
    m = build.magpy
    if kind == "Sensor":
        return m.Sensor()
    if kind == "Cuboid":
        return m.magnet.Cuboid(dimension=(1, 1, 1), polarization=(0, 0, 1))
    if kind == "Circle":
        return m.current.Circle(diameter=1, current=1)
    if kind == "Dipole":
        return m.misc.Dipole(moment=(1, 0, 0))
    return m.Collection()


class State:
    def __init__(self, init):
        self.objs = [_mk(k) for k in KINDS]
        self.kinds = list(KINDS)
        self.parent = [None] * len(self.objs)  # model: index of parent
        self.children = {i: [] for i, k in enumerate(self.kinds) if k == "Collection"}  # model
        self.nt = False
        self.extra_colls = []  # collections created by failed '+' / Collection(...) calls, reachable via _parent only

    def index_of(self, o):
        for i, x in enumerate(self.objs):
            if x is o:
                return i
        return None

    def is_coll(self, i):
        return self.kinds[i] == "Collection"

    def ancestors(self, i):
        out = []
        p = self.parent[i]
        guard = 0
        while p is not None and guard < 100:
            out.append(p)
            p = self.parent[p]
            guard += 1
        return out

    def register(self, o):
        if self.index_of(o) is not None:
            return self.index_of(o)
        self.objs.append(o)
        kind = type(o).__name__
        self.kinds.append(kind)
        self.parent.append(None)
        if kind == "Collection":
            self.children[len(self.objs) - 1] = []
        return len(self.objs) - 1

    # ---- model <- real objects
    def resync(self):
        for i, o in enumerate(self.objs):
            p = getattr(o, "_parent", None)
            self.parent[i] = self.index_of(p) if p is not None else None
            if self.is_coll(i):
                self.children[i] = [self.index_of(c) for c in o._children if self.index_of(c) is not None]  # pylint: disable=protected-access


def new_state(init):
    return State(init)


# ----------------------------------------------------------------------------- invariants


def _preorder(coll, kind_filter, depth=0):
    m = build.magpy
    out = []
    if depth > 50:
        raise RecursionError("cycle")
    for c in coll._children:  # pylint: disable=protected-access
        is_c = isinstance(c, m.Collection)
        is_s = isinstance(c, m.Sensor)
        if kind_filter == "all" or (kind_filter == "collections" and is_c) or (kind_filter == "sensors" and is_s) or \
                (kind_filter == "sources" and not is_c and not is_s):
            out.append(c)
        if is_c:
            out.extend(_preorder(c, kind_filter, depth + 1))
    return out


def _same(a, b):
    return len(a) == len(b) and all(x is y for x, y in zip(a, b))


def check_invariants(state, after):
    m = build.magpy
    out = []
    colls = [o for o in state.objs if isinstance(o, m.Collection)]
    # collections that are only reachable through some object's _parent (e.g. a discarded '+' result)
    for o in state.objs:
        p = getattr(o, "_parent", None)
        if p is not None and all(p is not c for c in colls):
            colls.append(p)
    for c in colls:
        ch = c._children  # pylint: disable=protected-access
        ids = [id(x) for x in ch]
        if len(set(ids)) != len(ids):
            out.append(Violation({"sub": "child_listed_twice", "after": after}, f"{c!r} lists a child more than once"))
        for x in ch:
            if getattr(x, "_parent", None) is not c:
                out.append(Violation({"sub": "child_parent_mismatch", "after": after},
                                     f"{x!r} is a child of {c!r} but its parent is {getattr(x, '_parent', None)!r}"))
                break
        want_src = [x for x in ch if not isinstance(x, (m.Collection, m.Sensor))]
        want_sens = [x for x in ch if isinstance(x, m.Sensor)]
        want_col = [x for x in ch if isinstance(x, m.Collection)]
        if not (_same(c.sources, want_src) and _same(c.sensors, want_sens) and _same(c.collections, want_col)):
            out.append(Violation({"sub": "typed_views_stale", "after": after},
                                 f"{c!r}: sources/sensors/collections are not the typed sub-lists of children: children={ch} "
                                 f"sources={c.sources} sensors={c.sensors} collections={c.collections}"))
        try:
            for name, kf in (("children_all", "all"), ("sources_all", "sources"), ("sensors_all", "sensors"), ("collections_all", "collections")):
                want = _preorder(c, kf)
                got = getattr(c, name)
                if not _same(list(got), want):
                    out.append(Violation({"sub": "flattened_view_wrong", "view": name, "after": after},
                                         f"{c!r}.{name} has {len(got)} entries, pre-order flattening of children has {len(want)}"))
                    break
        except RecursionError:
            out.append(Violation({"sub": "cycle", "after": after}, f"{c!r} reaches itself through children"))
        # describe() runs and names every descendant once
        r = build.call(c.describe, format="type+id", max_elems=1000, return_string=True)
        if not r.ok:
            out.append(Violation({"sub": "describe_raised", "after": after, "exc": type(r.exc).__name__}, repr(r.exc)[:200]))
        else:
            try:
                for x in _preorder(c, "all"):
                    n = r.value.count(f"(id={id(x)})")
                    if n != 1:
                        out.append(Violation({"sub": "describe_names_child_n_times", "after": after},
                                             f"describe() of {c!r} names {x!r} {n} times"))
                        break
            except RecursionError:
                pass
    for o in state.objs:
        p = getattr(o, "_parent", None)
        if p is None:
            continue
        if not isinstance(p, m.Collection):
            out.append(Violation({"sub": "parent_not_collection", "after": after}, f"{o!r}.parent = {p!r}"))
            continue
        n = sum(1 for x in p._children if x is o)  # pylint: disable=protected-access
        if n != 1:
            out.append(Violation({"sub": "parent_does_not_list_child", "after": after, "count": n},
                                 f"{o!r}.parent is {p!r}, which lists it {n} times among its children"))
        # walk up: no cycles
        seen, q, k = [], p, 0
        while q is not None and k < 100:
            if any(q is s for s in seen) or q is o:
                out.append(Violation({"sub": "cycle", "after": after}, f"{o!r} is its own ancestor"))
                break
            seen.append(q)
            q = getattr(q, "_parent", None)
            k += 1
    # one violation per sub-check
    seen, uniq = set(), []
    for v in out:
        if v.sig["sub"] not in seen:
            seen.add(v.sig["sub"])
            uniq.append(v)
    return uniq


def compare_model(state, after):
    for i, o in enumerate(state.objs):
        p = getattr(o, "_parent", None)
        pi = state.index_of(p) if p is not None else None
        if pi != state.parent[i]:
            return [Violation({"sub": "model_parent", "after": after},
                              f"object {i} ({state.kinds[i]}): parent index {pi}, documented effect gives {state.parent[i]}")]
        if state.is_coll(i):
            got = [state.index_of(c) for c in o._children]  # pylint: disable=protected-access
            if got != state.children[i]:
                return [Violation({"sub": "model_children", "after": after},
                                  f"collection {i}: children {got}, documented effect gives {state.children[i]}")]
    return []


# ----------------------------------------------------------------------------- operations


def _resolve(state, refs):
    """refs: list of pool indices or {'junk': ...} -> python objects"""
    out = []
    for r in refs:
        if isinstance(r, dict):
            out.append({"int": 5, "str": "abc", "none": None, "list": [1, 2, 3], "float": 1.5}[r["junk"]])
        else:
            out.append(state.objs[r % len(state.objs)])
    return out


def _model_detach(state, i):
    p = state.parent[i]
    if p is not None:
        state.children[p] = [x for x in state.children[p] if x != i]
    state.parent[i] = None


def _model_add(state, c, idxs, override):
    """documented effect of add for a clean argument list; returns False when the model does not define it"""
    if len(set(idxs)) != len(idxs):
        return False
    for i in idxs:
        if i == c or (state.is_coll(i) and (c in _model_descendants(state, i))):
            return False
        if state.parent[i] is not None and not override:
            return False
    for i in idxs:
        _model_detach(state, i)
        state.parent[i] = c
        state.children[c].append(i)
    return True


def _model_descendants(state, i):
    out = []
    for ch in state.children.get(i, []):
        out.append(ch)
        out.extend(_model_descendants(state, ch))
    return out


def apply_op(state, op, ctx):
    m = build.magpy
    k = op["op"]
    ctx.label("op:" + k)
    n = len(state.objs)
    defined = True  # does the reference model define the outcome?
    clean = lambda refs: all(not isinstance(r, dict) for r in refs)  # noqa: E731

    if k == "add":
        c = op["coll"] % n
        objs = _resolve(state, op["objs"])
        coll = state.objs[c]
        r = build.call(coll.add, *objs, override_parent=op["override"]) if not op.get("as_list") else build.call(coll.add, objs, override_parent=op["override"])
        if r.ok:
            idxs = [x % n for x in op["objs"]] if clean(op["objs"]) else None
            transfer = idxs is not None and any(state.parent[i] is not None and state.parent[i] != c for i in idxs)
            defined = idxs is not None and _model_add(state, c, idxs, op["override"])
            if transfer and op["override"]:
                state.nt = True
                ctx.label("nt:override_parent_transfer")
    elif k == "remove":
        c = op["coll"] % n
        objs = _resolve(state, op["objs"])
        r = build.call(state.objs[c].remove, *objs, recursive=op["recursive"], errors=op["errors"])
        if r.ok:
            if clean(op["objs"]) and op["errors"] in ("raise", "ignore"):
                scope = _model_descendants(state, c) if op["recursive"] else list(state.children[c])
                for i in [x % n for x in op["objs"]]:
                    if i in scope:
                        _model_detach(state, i)
                        scope = _model_descendants(state, c) if op["recursive"] else list(state.children[c])
                    elif op["errors"] == "raise":
                        defined = False
            else:
                defined = False
    elif k == "set_parent":
        o = op["obj"] % n
        val = _resolve(state, [op["value"]])[0] if op["value"] is not None else None

        def f():
            state.objs[o].parent = val
        r = build.call(f)
        if r.ok:
            if val is None:
                _model_detach(state, o)
            elif isinstance(op["value"], int) and state.is_coll(op["value"] % n):
                if state.parent[o] is not None and state.parent[o] != op["value"] % n:
                    state.nt = True
                    ctx.label("nt:override_parent_transfer")
                defined = _model_add(state, op["value"] % n, [o], True)
            else:
                defined = False
    elif k == "set_view":
        c = op["coll"] % n
        objs = _resolve(state, op["objs"])
        view = op["view"]

        def f():
            setattr(state.objs[c], view, objs)
        had = len(state.children[c]) > 0
        r = build.call(f)
        if r.ok:
            if clean(op["objs"]):
                idxs = [x % n for x in op["objs"]]
                kind_ok = {"children": lambda i: True,
                           "sources": lambda i: state.kinds[i] not in ("Collection", "Sensor"),
                           "sensors": lambda i: state.kinds[i] == "Sensor",
                           "collections": lambda i: state.kinds[i] == "Collection"}[view]
                if not all(kind_ok(i) for i in idxs):
                    defined = False  # typed setter silently filters / flattens: not specified here
                else:
                    for i in list(state.children[c]):
                        if kind_ok(i):
                            _model_detach(state, i)
                    defined = _model_add(state, c, idxs, True)
            else:
                defined = False
            if had:
                state.nt = True
                ctx.label("nt:setter_replaces_children")
    elif k == "plus":
        a, b = op["a"] % n, op["b"] % n
        r = build.call(lambda: state.objs[a] + state.objs[b])
        if r.ok:
            if len(state.objs) < MAX_POOL:
                ci = state.register(r.value)
                defined = _model_add(state, ci, [a, b], False)
            else:
                defined = False
    elif k == "new_collection":
        objs = _resolve(state, op["objs"])
        r = build.call(m.Collection, *objs, override_parent=op["override"])
        if r.ok:
            if len(state.objs) < MAX_POOL and clean(op["objs"]):
                ci = state.register(r.value)
                defined = _model_add(state, ci, [x % n for x in op["objs"]], op["override"])
            else:
                defined = False
    elif k == "copy":
        o = op["obj"] % n
        kw = {"none": {}, "good": {"position": (1.0, 2.0, 3.0)}, "good_style": {"style_label": "copied"},
              "bad_attr": {"position": (1.0, 2.0)}, "bad_style": {"style_bogus_leaf": 1}, "bad_name": {"no_such_attribute_xyz": 1}}[op.get("kw", "none")]
        r = build.call(state.objs[o].copy, **kw)
        if r.ok:
            cp = r.value
            if getattr(cp, "_parent", None) is not None:
                return [Violation({"sub": "copy_has_parent"}, f"copy of object {o} has a parent")]
            room = len(state.objs) + 1 + (len(cp.children_all) if isinstance(cp, m.Collection) else 0) <= MAX_POOL
            if room:
                state.register(cp)
                if isinstance(cp, m.Collection):
                    for x in cp.children_all:
                        state.register(x)
                state.resync()
            defined = False  # structure of the copy is C18's subject; here only invariants
    else:
        raise ValueError(k)

    after = k + (":raised" if not r.ok else "")
    if not r.ok:
        ctx.label("raised:" + type(r.exc).__name__)
        pos = op.get("bad_pos")
        if pos is not None and pos >= 1:
            state.nt = True
            ctx.label("nt:rejected_at_late_argument")
        elif k in ("add", "new_collection", "set_view", "plus"):
            ctx.label("rejected_call")
    out = check_invariants(state, after)
    if not out and r.ok and defined:
        out = compare_model(state, after)
    if not r.ok or not defined or out:
        state.resync()
    return out


def finish(state, init, ops, ctx):
    case = {"init": init, "ops": ops}
    if state.nt:
        ctx.mark_nontrivial(case)
        ctx.sample(case, nontrivial=True)
    else:
        ctx.sample(case)


def run_case(case, ctx):
    return machine.replay_history(sys.modules[__name__], case, ctx)


# ----------------------------------------------------------------------------- machine

_idx = st.integers(0, 63)
_junk = st.sampled_from(["int", "str", "none", "list", "float"]).map(lambda j: {"junk": j})


class ForestMachine(machine.VMachine):
    @initialize()
    def setup(self):
        self.start({"pool": KINDS})

    def _colls(self):
        return [i for i in range(len(self.state.objs)) if self.state.is_coll(i)]

    def _arglist(self, data, coll, allow_junk=True):
        """argument list with duplicates / self / ancestors / owned objects / junk at a late position"""
        st_ = self.state
        n = len(st_.objs)
        k = data.draw(st.integers(0, 4))
        refs = [data.draw(st.integers(0, n - 1)) for _ in range(k)]
        bad_pos = None
        trick = data.draw(st.sampled_from(["none", "none", "dup", "self", "ancestor", "owned", "junk", "wrong_type"]))
        pos = data.draw(st.integers(0, len(refs)))
        if trick == "dup" and refs:
            refs.insert(pos, refs[data.draw(st.integers(0, len(refs) - 1))])
        elif trick == "self" and coll is not None:
            refs.insert(pos, coll)
            bad_pos = pos
        elif trick == "ancestor" and coll is not None and st_.ancestors(coll):
            anc = st_.ancestors(coll)
            refs.insert(pos, anc[data.draw(st.integers(0, len(anc) - 1))])
            bad_pos = pos
        elif trick == "owned":
            owned = [i for i in range(n) if st_.parent[i] is not None]
            if owned:
                refs.insert(pos, owned[data.draw(st.integers(0, len(owned) - 1))])
                bad_pos = pos
        elif trick == "junk" and allow_junk:
            refs.insert(pos, data.draw(_junk))
            bad_pos = pos
        return refs, bad_pos

    @rule(data=st.data(), override=st.booleans(), as_list=st.booleans())
    def add(self, data, override, as_list):
        cs = self._colls()
        c = cs[data.draw(st.integers(0, len(cs) - 1))]
        refs, bad = self._arglist(data, c)
        self.do({"op": "add", "coll": c, "objs": refs, "override": override, "as_list": as_list and len(refs) != 1, "bad_pos": bad})

    @rule(data=st.data(), recursive=st.booleans(), errors=st.sampled_from(["raise", "raise", "ignore", "bogus"]))
    def remove(self, data, recursive, errors):
        cs = self._colls()
        c = cs[data.draw(st.integers(0, len(cs) - 1))]
        n = len(self.state.objs)
        inside = self.state.children[c] + _model_descendants(self.state, c)
        k = data.draw(st.integers(0, 3))
        refs = []
        for _ in range(k):
            if inside and data.draw(st.booleans()):
                refs.append(inside[data.draw(st.integers(0, len(inside) - 1))])
            else:
                refs.append(data.draw(st.integers(0, n - 1)))
        if data.draw(st.integers(0, 7)) == 0:
            refs.append(data.draw(_junk))
        self.do({"op": "remove", "coll": c, "objs": refs, "recursive": recursive, "errors": errors})

    @rule(data=st.data())
    def set_parent(self, data):
        n = len(self.state.objs)
        o = data.draw(st.integers(0, n - 1))
        kind = data.draw(st.sampled_from(["coll", "coll", "none", "any", "junk"]))
        if kind == "coll":
            cs = self._colls()
            val = cs[data.draw(st.integers(0, len(cs) - 1))]
        elif kind == "none":
            val = None
        elif kind == "any":
            val = data.draw(st.integers(0, n - 1))
        else:
            val = data.draw(_junk)
        self.do({"op": "set_parent", "obj": o, "value": val})

    @rule(data=st.data(), view=st.sampled_from(["children", "children", "sources", "sensors", "collections"]))
    def set_view(self, data, view):
        cs = self._colls()
        c = cs[data.draw(st.integers(0, len(cs) - 1))]
        refs, bad = self._arglist(data, c)
        self.do({"op": "set_view", "coll": c, "view": view, "objs": refs, "bad_pos": bad})

    @rule(data=st.data())
    def plus(self, data):
        n = len(self.state.objs)
        a, b = data.draw(st.integers(0, n - 1)), data.draw(st.integers(0, n - 1))
        bad = 1 if self.state.parent[b] is not None and self.state.parent[a] is None and a != b else None
        self.do({"op": "plus", "a": a, "b": b, "bad_pos": bad})

    @rule(data=st.data(), override=st.booleans())
    def new_collection(self, data, override):
        refs, bad = self._arglist(data, None)
        self.do({"op": "new_collection", "objs": refs, "override": override, "bad_pos": bad})

    @rule(data=st.data())
    def copy(self, data):
        n = len(self.state.objs)
        self.do({"op": "copy", "obj": data.draw(st.integers(0, n - 1)),
                 "kw": data.draw(st.sampled_from(["none", "none", "good", "good_style", "bad_attr", "bad_style", "bad_name"]))})


def make_machine(tier, sess):
    return machine.bind(ForestMachine, sys.modules[__name__], sess)
