"""C20  Style settings resolve by precedence and never leak.

(i) leaf-exhaustive enumeration: every style leaf of every family x every non-empty subset of
    value sources {show keyword, object style, specific family default, general family default,
    base default} x object-side notation; the resolved style must equal, leaf by leaf, the
    first non-None value in precedence order.
(ii) state machine: set / clear default leaves, set object leaves in any notation, invalid
    names and values, copy, defaults.reset(), resolve; compared with a flat reference model.
"""
from __future__ import annotations

import copy as _copy
import itertools
import sys

from hypothesis import strategies as st
from hypothesis.stateful import initialize, rule

from vf import build, machine
from vf.core import Violation

ID = "C20"
LEVEL = "exploration"
TECHNIQUE = "exhaustive enumeration of style leaves x value sources x notations, plus model-based stateful testing (Hypothesis), against a flat precedence model"
RULE = (
    "exhaustive sub-space: for each family representative (Cuboid, Triangle, TriangularMesh, Circle, Sensor, Dipole, "
    "CustomSource) every leaf of its style (enumerated at run time) x every non-empty subset of the value sources that "
    "exist for that leaf (show keyword, object, family defaults, base default; absent sources are set to None) x "
    "object-side notation (constructor style_a_b=, constructor style={..}, attribute assignment, update(a_b=..), "
    "update({nested}), obj.style = {nested}); quick rotates the notation with the case index, thorough takes the full "
    "product. Histories: 1-25 operations (set/clear a default leaf, set an object leaf in a random notation, invalid name "
    "or value, copy, defaults.reset(), resolve). non-trivial (enumeration) = >=2 sources present and (leaf depth >=3 or "
    "alias leaf); (history) = a reset or copy after >=2 updates; distinct = canonical hash"
)
ASSUMPTIONS = [
    "valid values per leaf are found by probing a scratch style object with a candidate pool (the stored, normalised value is the model value)",
    "magpylib.defaults is restored leaf by leaf from the snapshot taken at import before every case (defaults.reset() is itself under test)",
    "resolution = magpylib._src.style.get_style(obj, magpylib.defaults, **style_kwargs), the function show() uses",
]
CASE_TIMEOUT = 60


def budget(tier):
    return {"examples": 300 if tier == "quick" else 10000, "steps": 25}


magpy = build.magpy
from magpylib._src.style import get_style  # noqa: E402  pylint: disable=wrong-import-position

REPS = {
    "magnet": ("Cuboid", ["magnet"]),
    "triangle": ("Triangle", ["magnet", "triangle"]),
    "triangularmesh": ("TriangularMesh", ["magnet", "triangularmesh"]),
    "current": ("Circle", ["current"]),
    "sensor": ("Sensor", ["sensor"]),
    "dipole": ("Dipole", ["dipole"]),
    "base": ("CustomSource", []),
}
NOTATIONS = ["ctor_magic", "ctor_dict", "attr", "update_magic", "update_nested", "assign_dict"]
POOL = ["red", "blue", "green", "#123456", True, False, 0.25, 0.5, 0.75, 1, 2, 3, 4.5, "solid", "dashed", "dotted", "dashdot",
        "scaled", "absolute", "o", "x", "+", ".", "arrow3d", "cone", "auto", "arrow", "color", "arrow+color", "tricolor", "bicolor",
        "tricycle", "middle", "tail", "tip", "some text", "other text", "third text", ("red", "blue"), ("green", "yellow", "black"), [0, 1]]
SKIP_LEAVES = {"model3d_data"}
ALIASES = {"magnetization_size": "magnetization_arrow_size"}

PRISTINE = _copy.deepcopy(magpy.defaults.as_dict())
PRISTINE_FLAT = _copy.deepcopy(magpy.defaults.as_dict(flatten=True, separator="."))


def make_rep(cls, **kw):
    with build.quiet():
        if cls == "Cuboid":
            return magpy.magnet.Cuboid(dimension=(1, 1, 1), polarization=(0, 0, 1), **kw)
        if cls == "Triangle":
            return magpy.misc.Triangle(vertices=[(0, 0, 0), (1, 0, 0), (0, 1, 0)], polarization=(0, 0, 1), **kw)
        if cls == "TriangularMesh":
            return magpy.magnet.TriangularMesh(vertices=[(0, 0, 0), (1, 0, 0), (0, 1, 0), (0, 0, 1)],
                                               faces=[(0, 2, 1), (0, 1, 3), (1, 2, 3), (0, 3, 2)], polarization=(0, 0, 1), **kw)
        if cls == "Circle":
            return magpy.current.Circle(diameter=1, current=1, **kw)
        if cls == "Sensor":
            return magpy.Sensor(**kw)
        if cls == "Dipole":
            return magpy.misc.Dipole(moment=(0, 0, 1), **kw)
        return magpy.misc.CustomSource(**kw)


def nested(leaf, value):
    keys = leaf.split("_")
    d = value
    for k in reversed(keys):
        d = {k: d}
    return d


def set_leaf(root, leaf, value):
    keys = leaf.split("_")
    o = root
    for k in keys[:-1]:
        o = getattr(o, k)
    setattr(o, keys[-1], value)


def get_leaf(root, leaf):
    o = root
    for k in leaf.split("_"):
        o = getattr(o, k)
    return o


def restore_defaults():
    """leaf by leaf from the import-time snapshot, not through reset()"""
    for path, v in PRISTINE_FLAT.items():
        keys = path.split(".")
        o = magpy.defaults
        for k in keys[:-1]:
            o = getattr(o, k)
        try:
            cur = getattr(o, keys[-1])
            if cur != v or type(cur) is not type(v):
                setattr(o, keys[-1], _copy.deepcopy(v))
        except Exception:  # pylint: disable=broad-except
            setattr(o, keys[-1], _copy.deepcopy(v))
    # the deprecated alias may shadow arrow.size (known finding): force the canonical leaf last
    for fam in ("magnet", "triangle", "triangularmesh"):
        set_leaf(getattr(magpy.defaults.display.style, fam), "magnetization_arrow_size",
                 PRISTINE["display"]["style"][fam]["magnetization"]["arrow"]["size"])


_VALID_CACHE = {}


def valid_values(cls, leaf):
    """distinct values accepted (and read back) for this leaf on a scratch style object"""
    key = (cls, leaf)
    if key not in _VALID_CACHE:
        out, seen = [], []
        for v in POOL:
            sty = make_rep(cls).style
            try:
                set_leaf(sty, leaf, _copy.deepcopy(v))
                got = get_leaf(sty, leaf)
            except Exception:  # pylint: disable=broad-except
                continue
            if got is None or any(got == s and type(got) is type(s) for s in seen):
                continue
            seen.append(got)
            out.append((v, got))
        if any(isinstance(v, (int, float)) and not isinstance(v, bool) for v, _ in out):
            out = [(v, g) for v, g in out if not isinstance(v, bool)]  # numeric leaf: bools are not its values
        _VALID_CACHE[key] = out
    return _VALID_CACHE[key]


def _class_default(cls, leaf):
    """value a fresh object's own style holds for this leaf (None for almost all leaves)"""
    return make_rep(cls).style.as_dict(flatten=True, separator="_").get(leaf)


def leaves_of(cls):
    return [l for l in make_rep(cls).style.as_dict(flatten=True, separator="_") if l not in SKIP_LEAVES]


def default_leaves(fam):
    return list(getattr(magpy.defaults.display.style, fam).as_dict(flatten=True, separator="_"))


def sources_for(famkey, leaf):
    """ordered list of value sources that exist for this leaf: highest precedence first"""
    cls, fams = REPS[famkey]
    # `label` is not accepted as a show() keyword (validate_style_keys): object level only
    src = ["object"] if leaf == "label" else ["kwarg", "object"]
    for fam in reversed(fams):  # most specific family first
        if leaf in default_leaves(fam):
            src.append("family:" + fam)
    if leaf in default_leaves("base"):
        src.append("base")
    return src


# ----------------------------------------------------------------------------- enumeration


def enumerate_cases(tier):
    i = 0
    for famkey in REPS:
        cls = REPS[famkey][0]
        for leaf in leaves_of(cls):
            src = sources_for(famkey, leaf)
            for r in range(1, len(src) + 1):
                for subset in itertools.combinations(src, r):
                    nots = NOTATIONS if tier == "thorough" else [NOTATIONS[i % len(NOTATIONS)]]
                    for n in nots:
                        yield {"kind": "leaf", "family": famkey, "leaf": leaf, "present": list(subset), "notation": n if "object" in subset else "none"}
                        i += 1


def apply_notation(cls, leaf, value, notation):
    """object of class cls whose style leaf is set by the given notation"""
    if notation == "ctor_magic":
        return make_rep(cls, **{"style_" + leaf: value})
    if notation == "ctor_dict":
        return make_rep(cls, style=nested(leaf, value))
    obj = make_rep(cls)
    if notation == "attr":
        set_leaf(obj.style, leaf, value)
    elif notation == "update_magic":
        obj.style.update(**{leaf: value})
    elif notation == "update_nested":
        obj.style.update(nested(leaf, value))
    elif notation == "assign_dict":
        obj.style = nested(leaf, value)
    return obj


def _run_leaf(case, ctx):
    famkey, leaf, present = case["family"], case["leaf"], case["present"]
    cls, fams = REPS[famkey]
    restore_defaults()
    out = []
    vals = valid_values(cls, leaf)
    if not vals:
        ctx.label("leaf_without_probe_value")
        return out
    order = sources_for(famkey, leaf)
    # one value per source; consecutive present sources get different values
    assign = {}
    for k, s in enumerate(order):
        assign[s] = vals[k % len(vals)]
    sig0 = {"family": famkey, "leaf_kind": leaf.split("_")[-1], "alias": leaf in ALIASES}
    try:
        # defaults: present -> value, absent -> None
        for s in order:
            if s.startswith("family:") or s == "base":
                node = getattr(magpy.defaults.display.style, s.split(":")[1] if ":" in s else "base")
                v = _copy.deepcopy(assign[s][0]) if s in present else None
                try:
                    set_leaf(node, leaf, v)
                except Exception as e:  # pylint: disable=broad-except
                    if v is None:
                        ctx.label("default_leaf_rejects_None")
                        return out
                    out.append(Violation({**sig0, "sub": "default_rejects_valid_value", "source": s.split(":")[0]},
                                         f"defaults leaf {s}.{leaf} rejects {v!r} that the object style accepts: {e!r}"))
                    return out
        # object
        if "object" in present:
            r = build.call(apply_notation, cls, leaf, _copy.deepcopy(assign["object"][0]), case["notation"])
            if not r.ok:
                out.append(Violation({**sig0, "sub": "notation_raised", "notation": case["notation"], "exc": type(r.exc).__name__},
                                     f"{cls} style leaf {leaf} = {assign['object'][0]!r} via {case['notation']}: {type(r.exc).__name__}: {str(r.exc)[:200]}"))
                return out
            obj = r.value
            ref = apply_notation(cls, leaf, _copy.deepcopy(assign["object"][0]), "attr")
            da, db = obj.style.as_dict(flatten=True, separator="_"), ref.style.as_dict(flatten=True, separator="_")
            if repr(da) != repr(db):
                diff = [k for k in da if repr(da[k]) != repr(db.get(k))]
                out.append(Violation({**sig0, "sub": "notations_differ", "notation": case["notation"]},
                                     f"{cls}: setting {leaf} via {case['notation']} and via attribute assignment leave different styles: {diff}"))
        else:
            obj = make_rep(cls)
        kwargs = {}
        if "kwarg" in present:
            kwargs["style_" + leaf] = _copy.deepcopy(assign["kwarg"][0])
        own_before = repr(obj.style.as_dict())
        def_before = repr(magpy.defaults.as_dict())
        r = build.call(get_style, obj, magpy.defaults, **kwargs)
        if not r.ok:
            out.append(Violation({**sig0, "sub": "resolve_raised", "exc": type(r.exc).__name__},
                                 f"get_style raised {type(r.exc).__name__}: {str(r.exc)[:200]} (leaf {leaf}, present {present})"))
            return out
        got = r.value.as_dict(flatten=True, separator="_").get(leaf)
        want = None
        first = None
        for s in order:
            if s in present:
                want, first = assign[s][1], s
                break
        if not (got == want and type(got) is type(want)):
            out.append(Violation({**sig0, "sub": "precedence", "winner_expected": first.split(":")[0],
                                  "object_class_default": _class_default(cls, leaf) is not None and "object" not in present,
                                  "present": [p.split(":")[0] for p in present]},
                                 f"{cls} leaf {leaf}: sources present {present} with values "
                                 f"{ {s: assign[s][0] for s in present} }; resolved {got!r}, precedence gives {want!r} (from {first})"))
        if repr(obj.style.as_dict()) != own_before:
            out.append(Violation({**sig0, "sub": "resolve_changed_object_style"}, f"get_style changed the object's own style (leaf {leaf})"))
        if repr(magpy.defaults.as_dict()) != def_before:
            out.append(Violation({**sig0, "sub": "resolve_changed_defaults"}, f"get_style changed magpylib.defaults (leaf {leaf})"))
    finally:
        restore_defaults()
    depth = len(leaf.split("_"))
    ctx.label(f"family:{famkey}")
    ctx.label(f"sources_present:{len(present)}")
    ctx.extra["exhaustive_subspace"] = True
    if len(present) >= 2 and (depth >= 3 or leaf in ALIASES):
        ctx.mark_nontrivial(case)
        ctx.sample(case, nontrivial=True)
    else:
        ctx.sample(case)
    return out


# ----------------------------------------------------------------------------- histories

BAD_VALUE = {"color": "notacolor123", "show": "maybe", "numbering": "maybe", "showdefault": "maybe", "size": "big", "width": "wide",
             "opacity": 2.5, "offset": "far", "style": "wavy", "sizemode": "huge", "symbol": "QQ", "mode": "weird", "pivot": "left",
             "transition": "abc"}


class State:
    def __init__(self, init):
        restore_defaults()
        self.famkey = init["family"]
        self.cls, self.fams = REPS[self.famkey]
        self.objs = [make_rep(self.cls), make_rep(self.cls)]
        self.model_obj = [{}, {}]  # leaf -> stored value
        pend = init.get("pending")
        if pend:
            vv = [x for x in valid_values(self.cls, pend["leaf"]) if repr(x[0]) == repr(_unjson(pend["value"]))]
            if vv:
                # object 1 carries pending constructor style keywords; its style is not read before the first operation
                how = {"style_" + pend["leaf"]: _copy.deepcopy(vv[0][0])} if pend["how"] == "magic" else {"style": nested(pend["leaf"], _copy.deepcopy(vv[0][0]))}
                self.objs[1] = make_rep(self.cls, **how)
                self.model_obj[1][pend["leaf"]] = vv[0][1]
                if pend["how"] == "dict" and pend.get("shared"):
                    # one caller-owned style dictionary handed to two constructors: both objects carry the style,
                    # neither influences the other, and the caller's dictionary stays what it was
                    d = how["style"]
                    self.caller_style = (d, _copy.deepcopy(d))
                    self.objs[0] = make_rep(self.cls, style=d)
                    self.model_obj[0][pend["leaf"]] = vv[0][1]
        self.model_def = {}  # (node, leaf) -> stored value or None; absent = pristine
        if not hasattr(self, "caller_style"):
            self.caller_style = None
        self.updates = 0
        self.nt = False
        self.leaves = leaves_of(self.cls)

    def default_value(self, node, leaf):
        if (node, leaf) in self.model_def:
            return self.model_def[(node, leaf)]
        d = PRISTINE["display"]["style"][node]
        for k in leaf.split("_"):
            d = d[k]
        return d

    def expected(self, i, leaf, kw):
        if leaf in kw:
            return kw[leaf]
        v = self.model_obj[i].get(leaf)
        if v is not None:
            return v
        for s in [x for x in sources_for(self.famkey, leaf) if x not in ('kwarg', 'object')]:
            node = s.split(":")[1] if ":" in s else "base"
            v = self.default_value(node, leaf)
            if v is not None:
                return v
        return None


def new_state(init):
    return State(init)


def apply_op(state, op, ctx):
    out = _apply_op(state, op, ctx)
    if state.caller_style is not None and repr(state.caller_style[0]) != repr(state.caller_style[1]):
        out.append(Violation({"sub": "caller_style_dict_changed", "op": op["op"]},
                             f"the style dictionary passed to the constructors was changed by the library: {state.caller_style[1]!r} -> {state.caller_style[0]!r}"))
        state.caller_style = None
    return out


def _apply_op(state, op, ctx):
    out = []
    k = op["op"]
    ctx.label("op:" + k)
    cls = state.cls
    if k == "set_default":
        node, leaf = op["node"], op["leaf"]
        v = op["value"]
        stored = None
        if v is not None:
            vv = [x for x in valid_values(cls, leaf) if repr(x[0]) == repr(_unjson(v))]
            if not vv:
                return out
            stored = vv[0][1]
        r = build.call(set_leaf, getattr(magpy.defaults.display.style, node), leaf, _copy.deepcopy(_unjson(v)))
        if r.ok:
            state.model_def[(node, leaf)] = stored
            if leaf in ALIASES.values():
                for a, c in ALIASES.items():
                    if c == leaf and a in default_leaves(node):
                        state.model_def[(node, a)] = stored
            if leaf in ALIASES and v is not None:
                state.model_def[(node, ALIASES[leaf])] = stored
            state.updates += 1
        elif v is not None:
            out.append(Violation({"sub": "default_rejects_valid_value", "source": "family" if node != "base" else "base"},
                                 f"defaults.display.style.{node}.{leaf} = {v!r}: {r.exc!r}"))
    elif k == "set_object":
        i, leaf, n = op["obj"] % len(state.objs), op["leaf"], op["notation"]
        if op["value"] is None:
            if _class_default(cls, leaf) is not None or leaf == "label":
                return out  # leaves with a class-level value are the subject of KF-C20-1
            val, stored = None, None
        else:
            vv = [x for x in valid_values(cls, leaf) if repr(x[0]) == repr(_unjson(op["value"]))]
            if not vv:
                return out
            val, stored = vv[0]
        obj = state.objs[i]
        before_other = [build.style_view(o) for j, o in enumerate(state.objs) if j != i]
        if n == "attr":
            r = build.call(set_leaf, obj.style, leaf, _copy.deepcopy(val))
        elif n == "update_magic":
            r = build.call(lambda: obj.style.update(**{leaf: _copy.deepcopy(val)}))
        elif n == "update_nested":
            r = build.call(lambda: obj.style.update(nested(leaf, _copy.deepcopy(val))))
        else:
            def f():
                obj.style = nested(leaf, _copy.deepcopy(val))
            r = build.call(f)
        if not r.ok:
            out.append(Violation({"sub": "notation_raised", "notation": n, "exc": type(r.exc).__name__, "leaf_kind": leaf.split("_")[-1]},
                                 f"{cls}.style {leaf} = {val!r} via {n}: {type(r.exc).__name__}: {str(r.exc)[:160]}"))
            return out
        state.model_obj[i][leaf] = stored
        if leaf in ALIASES:
            state.model_obj[i][ALIASES[leaf]] = stored
        for a, c in ALIASES.items():
            if c == leaf and a in state.leaves:
                state.model_obj[i][a] = stored
        state.updates += 1
        after_other = [build.style_view(o) for j, o in enumerate(state.objs) if j != i]
        if before_other != after_other:
            out.append(Violation({"sub": "style_leaks_between_objects", "notation": n}, f"setting {leaf} on object {i} changed another object's style"))
        got = obj.style.as_dict(flatten=True, separator="_")
        for lf, want in state.model_obj[i].items():
            if not (got.get(lf) == want and type(got.get(lf)) is type(want)):
                out.append(Violation({"sub": "last_assignment_lost", "notation": n, "leaf_kind": lf.split("_")[-1], "alias": lf in ALIASES or lf in ALIASES.values()},
                                     f"{cls}.style: after setting {leaf}={val!r} via {n}, leaf {lf} reads {got.get(lf)!r}, last assignment was {want!r}"))
                break
    elif k == "invalid":
        i, leaf = op["obj"] % len(state.objs), op["leaf"]
        obj = state.objs[i]
        before = repr(obj.style.as_dict())
        if op["what"] == "name":
            parent = "_".join(leaf.split("_")[:-1])
            name = (parent + "_" if parent else "") + "bogusleafxyz"
            r = build.call(lambda: obj.style.update(**{name: 1}))
            bad = "unknown name"
        else:
            bv = BAD_VALUE.get(leaf.split("_")[-1])
            if bv is None:
                return out
            n = op["notation"]
            if n == "attr":
                r = build.call(set_leaf, obj.style, leaf, bv)
            elif n == "update_magic":
                r = build.call(lambda: obj.style.update(**{leaf: bv}))
            else:
                r = build.call(lambda: obj.style.update(nested(leaf, bv)))
            bad = f"value {bv!r}"
        if r.ok:
            # is it really invalid? only values that the scratch probe rejects count
            out.append(Violation({"sub": "invalid_accepted", "what": op["what"], "leaf_kind": leaf.split("_")[-1]},
                                 f"{cls}.style accepted {bad} for leaf {leaf}"))
        if repr(obj.style.as_dict()) != before:
            out.append(Violation({"sub": "invalid_changed_style", "what": op["what"], "raised": not r.ok, "leaf_kind": leaf.split("_")[-1]},
                                 f"rejected {bad} for {leaf} changed the style"))
    elif k == "copy":
        i = op["obj"] % len(state.objs)
        r = build.call(state.objs[i].copy)
        if r.ok and len(state.objs) < 5:
            state.objs.append(r.value)
            state.model_obj.append({k: v for k, v in state.model_obj[i].items() if k != "label"})
            if state.updates >= 2:
                state.nt = True
    elif k == "reset":
        r = build.call(magpy.defaults.reset)
        if not r.ok:
            out.append(Violation({"sub": "reset_raised", "exc": type(r.exc).__name__}, repr(r.exc)[:200]))
        state.model_def = {}
        now = magpy.defaults.as_dict(flatten=True, separator=".")
        bad = [p for p, v in PRISTINE_FLAT.items() if not (now.get(p) == v)]
        if bad:
            out.append(Violation({"sub": "reset_incomplete", "leaf_kind": bad[0].split(".")[-1], "alias_related": any("magnetization" in b and "size" in b for b in bad)},
                                 f"defaults.reset() did not restore {bad[:4]}: now {[now.get(b) for b in bad[:4]]}, import-time {[PRISTINE_FLAT[b] for b in bad[:4]]}"))
            restore_defaults()
        if state.updates >= 2:
            state.nt = True
    elif k == "resolve":
        i = op["obj"] % len(state.objs)
        kw = {}
        for leaf, v in op.get("kwargs", {}).items():
            vv = [x for x in valid_values(cls, leaf) if repr(x[0]) == repr(_unjson(v))]
            if vv:
                kw[leaf] = vv[0]
        r = build.call(get_style, state.objs[i], magpy.defaults, **{"style_" + l: _copy.deepcopy(v[0]) for l, v in kw.items()})
        if not r.ok:
            out.append(Violation({"sub": "resolve_raised", "exc": type(r.exc).__name__}, repr(r.exc)[:200]))
        else:
            got = r.value.as_dict(flatten=True, separator="_")
            for leaf in state.leaves:
                want = state.expected(i, leaf, {l: v[1] for l, v in kw.items()})
                g = got.get(leaf)
                if leaf == "label":
                    continue
                if not (g == want and type(g) is type(want)) and not (g is None and want is None):
                    out.append(Violation({"sub": "precedence", "leaf_kind": leaf.split("_")[-1], "alias": leaf in ALIASES or leaf in ALIASES.values(),
                                          "family": state.famkey,
                                          "object_class_default": _class_default(cls, leaf) is not None and state.model_obj[i].get(leaf) is None and leaf not in kw},
                                         f"{cls} leaf {leaf}: resolved {g!r}, model gives {want!r} (object {state.model_obj[i].get(leaf)!r}, kwargs {sorted(kw)})"))
                    break
    return out


def _unjson(v):
    """JSON turns tuples into lists; the pool holds tuples for colour sequences"""
    if isinstance(v, list) and v and all(isinstance(x, str) for x in v):
        return tuple(v)
    return v


def finish(state, init, ops, ctx):
    restore_defaults()
    case = {"init": init, "ops": ops}
    ctx.label("history_family:" + state.famkey)
    if state.nt:
        ctx.mark_nontrivial(case)
        ctx.sample(case, nontrivial=True)
    else:
        ctx.sample(case)


def run_case(case, ctx):
    if case.get("kind") == "leaf":
        return _run_leaf(case, ctx)
    try:
        return machine.replay_history(sys.modules[__name__], case, ctx)
    finally:
        restore_defaults()


class StyleMachine(machine.VMachine):
    @initialize(fam=st.sampled_from(sorted(REPS)), data=st.data())
    def setup(self, fam, data):
        pend = None
        if data.draw(st.booleans()):
            lv = leaves_of(REPS[fam][0])
            leaf = lv[data.draw(st.integers(0, len(lv) - 1))]
            vv = valid_values(REPS[fam][0], leaf)
            if vv and leaf != "label":
                v = vv[data.draw(st.integers(0, len(vv) - 1))][0]
                pend = {"leaf": leaf, "value": list(v) if isinstance(v, tuple) else v, "how": data.draw(st.sampled_from(["magic", "dict"])),
                        "shared": data.draw(st.booleans())}
        self.start({"family": fam, "pending": pend})
        if pend is not None and data.draw(st.booleans()):
            # the informative first step: assign the same leaf on the object that still has pending keywords
            vv = valid_values(REPS[fam][0], pend["leaf"])
            v = vv[data.draw(st.integers(0, len(vv) - 1))][0]
            self.do({"op": "set_object", "obj": 1, "leaf": pend["leaf"], "value": list(v) if isinstance(v, tuple) else v,
                     "notation": data.draw(st.sampled_from(["assign_dict", "update_magic", "attr", "update_nested"]))})

    def _leaf(self, data):
        lv = self.state.leaves
        return lv[data.draw(st.integers(0, len(lv) - 1))]

    def _value(self, data, leaf):
        vv = valid_values(self.state.cls, leaf)
        if not vv:
            return None
        v = vv[data.draw(st.integers(0, len(vv) - 1))][0]
        return list(v) if isinstance(v, tuple) else v

    @rule(data=st.data(), clear=st.booleans())
    def set_default(self, data, clear):
        leaf = self._leaf(data)
        src = [s for s in [x for x in sources_for(self.state.famkey, leaf) if x not in ('kwarg', 'object')]]
        if not src:
            return
        s = src[data.draw(st.integers(0, len(src) - 1))]
        node = s.split(":")[1] if ":" in s else "base"
        self.do({"op": "set_default", "node": node, "leaf": leaf, "value": None if clear else self._value(data, leaf)})

    @rule(data=st.data(), obj=st.integers(0, 4), notation=st.sampled_from(["attr", "update_magic", "update_nested", "assign_dict"]),
          clear=st.integers(0, 5))
    def set_object(self, data, obj, notation, clear):
        set_before = sorted(self.state.model_obj[obj % len(self.state.objs)])
        if clear == 0 and set_before:
            leaf = set_before[data.draw(st.integers(0, len(set_before) - 1))]  # un-set a leaf that was set
            v = None
        else:
            leaf = self._leaf(data)
            v = self._value(data, leaf)
            if v is None:
                return
        self.do({"op": "set_object", "obj": obj, "leaf": leaf, "value": v, "notation": notation})

    @rule(data=st.data(), obj=st.integers(0, 4), what=st.sampled_from(["name", "value", "value"]),
          notation=st.sampled_from(["attr", "update_magic", "update_nested"]))
    def invalid(self, data, obj, what, notation):
        self.do({"op": "invalid", "obj": obj, "leaf": self._leaf(data), "what": what, "notation": notation})

    @rule(obj=st.integers(0, 4))
    def copy(self, obj):
        self.do({"op": "copy", "obj": obj})

    @rule()
    def reset(self):
        self.do({"op": "reset"})

    @rule(data=st.data(), obj=st.integers(0, 4))
    def resolve(self, data, obj):
        kw = {}
        for _ in range(data.draw(st.integers(0, 2))):
            leaf = self._leaf(data)
            v = self._value(data, leaf)
            if v is not None and leaf != "label":
                kw[leaf] = v
        self.do({"op": "resolve", "obj": obj, "kwargs": kw})

    def teardown(self):
        super().teardown()
        restore_defaults()


def make_machine(tier, sess):
    return machine.bind(StyleMachine, sys.modules[__name__], sess)
