"""C18  copy() yields an equal, fully independent, parentless object.

State machine: build an object of any class or a collection tree (with / without parent; style
never touched, pending from the constructor, or initialised), copy it with generated keyword
overrides, then mutate original or copy; after every step the untouched side must be
byte-identical to its snapshot.
"""
from __future__ import annotations

import copy as _copy
import sys

import numpy as np
from hypothesis import strategies as st
from hypothesis.stateful import initialize, precondition, rule
from scipy.spatial.transform import Rotation as R

from vf import build, gen, machine, trees
from vf.core import Violation, exc_sig
from vf.props import c11

ID = "C18"
LEVEL = "exploration"
TECHNIQUE = "stateful property testing (Hypothesis RuleBasedStateMachine): snapshot independence between original and copy"
RULE = (
    "history = object of any class (11 source classes, Sensor) or a collection tree (depth<=3), optionally inside a parent "
    "collection, style state in {never touched, pending constructor keywords, initialised}; one copy(**overrides) with "
    "overrides from the attribute and style_* namespace; then 0-8 mutations of original or copy: attribute assignment, "
    "in-place writes into arrays returned by the public getters, move/rotate, style updates in three notations, "
    "adding/removing children, re-parenting, a second copy. non-trivial = (the object had a parent, or its style was not "
    "yet created, or it is a collection of depth>=2) and at least one mutation follows; distinct = canonical hash"
)
ASSUMPTIONS = [
    "equality at copy time: class, geometry, excitation, paths, pixel, handedness, style dict without the label leaf, field at sample observers",
    "independence: byte snapshot (vf.build.snapshot_obj incl. observable style) of the untouched side is unchanged after every mutation of the other side",
]
CASE_TIMEOUT = 30

LEAF = gen.ALL_SOURCES + ["Sensor"]


def budget(tier):
    return {"examples": 3000 if tier == "quick" else 50000, "steps": 10}


# ------------------------------------------------------------------------------- helpers


def _members(root):
    m = build.magpy
    if isinstance(root, m.Collection):
        return [root] + list(root.children_all)
    return [root]


def _snap_side(root):
    out = []
    for o in _members(root):
        s = build.snapshot_obj(o)
        out.append(s)
    return out


def _structure(root):
    """ids replaced by positions inside the side, so that two sides can be compared"""
    mem = _members(root)
    idx = {id(o): i for i, o in enumerate(mem)}
    out = []
    for o in mem:
        out.append((type(o).__name__, [idx.get(id(c)) for c in getattr(o, "_children", [])]))
    return out


def _strip(snap, drop_label=True):
    s = {k: v for k, v in snap.items() if k not in ("parent", "children", "sources", "sensors", "collections", "field_func")}
    if drop_label and "style" in s:
        s["style"] = _drop_label(s["style"])
    return s


def _drop_label(style_repr):
    """the automatically iterated label is exempt from the comparison (property text)"""
    import re  # pylint: disable=import-outside-toplevel

    return re.sub(r"'label': (None|'[^']*'|\"[^\"]*\")", "'label': <exempt>", style_repr, count=1)


def _field_probe(root):
    m = build.magpy
    pts = np.array([[2.3, -1.7, 1.9], [0.05, 0.02, -0.03], [-3.1, 2.2, 0.4]])
    has_src = (isinstance(root, m.Collection) and root.sources_all) or (not isinstance(root, (m.Collection, m.Sensor)))
    if not has_src:
        return None
    r = build.call(m.getB, root, pts, squeeze=False)
    return np.asarray(r.value) if r.ok else ("raised", type(r.exc).__name__)


class State:
    def __init__(self, init):
        m = build.magpy
        spec = init["object"]
        style_kw = dict(init.get("style_kw") or {})
        if style_kw.pop("trace_object", False):
            # a mutable style object instance given at construction (documented model3d notation)
            style_kw["style_model3d_data"] = [m.graphics.Trace3d(
                backend="generic", constructor="Scatter3d", kwargs={"x": np.array([0.0, 1.0]), "y": [0, 1], "z": [0, 1]})]
        self.orig = self._build(spec, style_kw)
        self.holder = None
        if init.get("with_parent"):
            self.holder = m.Collection(self.orig)
        if init["style_state"] in ("initialised", "initialised_from_kwargs"):
            for o in _members(self.orig):
                _ = o.style  # noqa: F841
        self.copy = None
        self.snap_orig = None
        self.snap_copy = None
        self.mutations = 0
        self.init = init
        self.extra = []  # objects used as new children / parents

    def _build(self, spec, style_kw):
        m = build.magpy
        if spec["cls"] == "Collection":
            coll = m.Collection(**style_kw)
            for ch in spec["children"]:
                coll.add(self._build(ch, {}))
            build.apply_pose(coll, {"position": spec["position"], "orientation": spec["orientation"]}) if False else None
            coll._position = np.asarray(spec["position"], dtype=float)  # pylint: disable=protected-access
            coll._orientation = R.from_quat(np.asarray(spec["orientation"], dtype=float))  # pylint: disable=protected-access
            return coll
        if spec["cls"] == "Sensor":
            o = m.Sensor(pixel=spec.get("pixel"), handedness=spec.get("handedness", "right"), **style_kw)
        elif spec["cls"] == "CustomSource":
            o = m.misc.CustomSource(field_func=build.custom_func(spec.get("func")), **style_kw)
        else:
            kw = {k: spec[k] for k in build.GEOM_KEYS if k in spec}
            with build.quiet():
                o = build.CLASSES[spec["cls"]](**kw, **style_kw)
        build.apply_pose(o, spec)
        return o


def new_state(init):
    return State(init)


def _side(state, which):
    return state.orig if which == "orig" else state.copy


def _check_independent(state, touched, op, out):
    """the side that was not touched must be byte-identical to its snapshot"""
    other = "copy" if touched == "orig" else "orig"
    now = _snap_side(_side(state, other))
    ref = state.snap_copy if other == "copy" else state.snap_orig
    if len(now) != len(ref):
        out.append(Violation({"sub": "shared_state", "mutation": op["op"], "mutated": touched, "what": "members"},
                             f"mutating the {touched} changed the member list of the {other}"))
    else:
        for a, b in zip(ref, now):
            d = build.diff_snap(a, b)
            if d:
                out.append(Violation({"sub": "shared_state", "mutation": op["op"], "mutated": touched, "what": d,
                                      "style_state": state.init["style_state"]},
                                     f"mutating the {touched} ({op}) changed {d} of the {other} ({a['type']})"))
                break
    # refresh snapshots (the touched side changed legitimately)
    state.snap_orig = _snap_side(state.orig)
    state.snap_copy = _snap_side(state.copy)


OVERRIDES = {
    "position": {"position": (0.7, -0.2, 1.1)},
    "position_path": {"position": [(0.0, 0.0, 1.0), (0.0, 0.0, 2.0)]},
    "orientation": {"orientation": R.from_rotvec((0.1, 0.2, 0.3))},
    "style_label": {"style_label": "the_copy"},
    "style_color": {"style_color": "red"},
    "style_opacity": {"style_opacity": 0.3},
    "style_dict": {"style": {"color": "blue"}},
    # None is a meaningful override: unit rotation / "not set"
    "orientation_None": {"orientation": None},
    "excitation_None": {},  # filled per class: polarization / current / moment = None
}
EXCITATION_ATTR = {"Cuboid": "polarization", "Sphere": "polarization", "Tetrahedron": "polarization", "Circle": "current", "Dipole": "moment"}


def apply_op(state, op, ctx):
    m = build.magpy
    out = []
    k = op["op"]
    ctx.label("op:" + k)
    if k == "copy":
        before = _snap_side(state.orig)
        struct_before = _structure(state.orig)
        parent_before = state.orig._parent  # pylint: disable=protected-access
        kw = {}
        for name in op["overrides"]:
            kw.update(_copy.deepcopy(OVERRIDES[name]))
        exc_attr = EXCITATION_ATTR.get(type(state.orig).__name__)
        if "excitation_None" in op["overrides"] and exc_attr:
            kw[exc_attr] = None
        r = build.call(state.orig.copy, **kw)
        if not r.ok:
            return [Violation({"sub": "copy_raised", "overrides": sorted(op["overrides"]), **exc_sig(r.exc)},
                              f"copy({sorted(kw)}) raised {type(r.exc).__name__}: {str(r.exc)[:200]}")]
        state.copy = r.value
        cp = state.copy
        after = _snap_side(state.orig)
        # original untouched (the lazily created style object does not count: observable style is compared)
        for a, b in zip(before, after):
            d = build.diff_snap(a, b)
            if d:
                out.append(Violation({"sub": "copy_changed_original", "what": d}, f"copy() changed {d} of the original"))
                break
        if state.orig._parent is not parent_before:  # pylint: disable=protected-access
            out.append(Violation({"sub": "copy_changed_original", "what": ["parent"]}, "copy() changed the parent of the original"))
        if getattr(cp, "_parent", None) is not None:
            out.append(Violation({"sub": "copy_has_parent"}, "the copy has a parent"))
        if type(cp) is not type(state.orig):
            out.append(Violation({"sub": "copy_class"}, f"{type(cp)} vs {type(state.orig)}"))
        if _structure(cp) != struct_before:
            out.append(Violation({"sub": "copy_structure"}, "subtree of the copy is not isomorphic to the original"))
        mo, mc = _members(state.orig), _members(cp)
        if any(a is b for a in mo for b in mc):
            out.append(Violation({"sub": "copy_shares_object"}, "the copy's subtree contains an object of the original"))
        # C11 invariants inside the copy
        mini = c11.State.__new__(c11.State)
        mini.objs, mini.kinds = list(mc), [type(o).__name__ for o in mc]
        for v in c11.check_invariants(mini, "copy"):
            out.append(Violation({"sub": "copy_tree_inconsistent", "inv": v.sig["sub"]}, v.detail))
        # equality apart from overrides / label
        over_keys = set()
        for name in op["overrides"]:
            if name == "excitation_None":
                over_keys |= {"polarization", "magnetization", "current", "moment"}
            else:
                over_keys |= {"position", "orientation", "orientation_single"} if name.startswith(("position", "orientation")) else {"style"}
        cs = _snap_side(cp)
        if len(cs) == len(before):
            for i, (a, b) in enumerate(zip(before, cs)):
                sa, sb = _strip(a), _strip(b)
                # an overridden attribute of the copy differs by intent; a pose override of a collection
                # moves its children along (C10), so their poses are not compared either
                for kk in (over_keys if i == 0 else over_keys - {"style"}):
                    sa.pop(kk, None)
                    sb.pop(kk, None)
                d = build.diff_snap(sa, sb)
                if d:
                    out.append(Violation({"sub": "copy_not_equal", "what": d, "member": "root" if i == 0 else "descendant",
                                          "style_state": state.init["style_state"]},
                                         f"copy differs from original in {d} ({a['type']}, member {i})"))
                    break
        # a None override acts like the assignment of None on a plain copy
        none_attrs = [a_ for a_, v_ in kw.items() if v_ is None]
        if none_attrs:
            r2 = build.call(state.orig.copy)
            if r2.ok:
                for a_, v_ in kw.items():
                    if not a_.startswith("style"):
                        setattr(r2.value, a_, _copy.deepcopy(v_))
                s1, s2 = _strip(_snap_side(cp)[0]), _strip(_snap_side(r2.value)[0])
                s1.pop("style", None)
                s2.pop("style", None)
                d = build.diff_snap(s1, s2)
                if d:
                    out.append(Violation({"sub": "override_not_applied", "which": "None:" + ",".join(sorted(none_attrs)), "what": d},
                                         f"copy({', '.join(a_ + '=None' for a_ in none_attrs)}) differs in {d} from a plain copy followed by the assignment of None"))
        # overrides visible on the copy
        if "position" in op["overrides"] and not np.allclose(np.asarray(cp.position), (0.7, -0.2, 1.1)):
            out.append(Violation({"sub": "override_not_applied", "which": "position"}, f"copy.position={cp.position}"))
        if "style_label" in op["overrides"] and cp.style.label != "the_copy":
            out.append(Violation({"sub": "override_not_applied", "which": "style_label"}, f"copy.style.label={cp.style.label!r}"))
        if "style_color" in op["overrides"] and cp.style.color != "red":
            out.append(Violation({"sub": "override_not_applied", "which": "style_color"}, f"copy.style.color={cp.style.color!r}"))
        if "style_dict" in op["overrides"] and cp.style.color != "blue" and "style_color" not in op["overrides"]:
            out.append(Violation({"sub": "override_not_applied", "which": "style_dict"}, f"copy.style.color={cp.style.color!r}"))
        # equal field (when the pose was not overridden)
        if not (over_keys & {"position"}) and "excitation_None" not in op["overrides"]:
            fo, fc = _field_probe(state.orig), _field_probe(cp)
            if isinstance(fo, np.ndarray) and isinstance(fc, np.ndarray):
                if fo.shape != fc.shape or not np.array_equal(fo, fc, equal_nan=True):
                    out.append(Violation({"sub": "copy_field_differs"}, "getB of copy and original differ"))
            elif type(fo) is not type(fc):
                out.append(Violation({"sub": "copy_field_differs"}, f"field probe: original {fo!r} copy {fc!r}"))
        state.snap_orig = _snap_side(state.orig)
        state.snap_copy = _snap_side(cp)
        return out

    # ---- mutations
    if state.copy is None:
        return out
    which = op["side"]
    root = _side(state, which)
    mem = _members(root)
    tgt = mem[op.get("member", 0) % len(mem)]
    state.mutations += 1

    def attr_assign():
        name = op["attr"]
        if not hasattr(tgt, name):
            return
        val = op["value"]
        if name == "orientation":
            val = R.from_quat(np.asarray(val, dtype=float))
        setattr(tgt, name, val)

    def inplace():
        name = op["attr"]
        if not hasattr(tgt, name):
            return
        arr = getattr(tgt, name)
        if isinstance(arr, np.ndarray) and arr.size and arr.flags.writeable:
            arr.flat[0] = arr.flat[0] + 0.12345

    def path_op():
        if op["kind"] == "move":
            tgt.move(op["value"])
        else:
            tgt.rotate_from_angax(33.0, (1, 2, 3), anchor=0)

    def style_op():
        how = op["how"]
        if how == "attr":
            tgt.style.color = op["value"]
        elif how == "update":
            tgt.style.update(opacity=0.45, color=op["value"])
        elif how == "dict":
            tgt.style = {"color": op["value"], "label": "renamed"}
        elif how == "nested":
            tgt.style.update({"path": {"line": {"width": 3}}})
        elif how == "model3d":
            tgt.style.model3d.showdefault = False
        elif how == "trace":
            data = tgt.style.model3d.data
            if data and op.get("value", "").startswith(("r", "b", "g")) and isinstance(data[0].kwargs.get("x"), np.ndarray):
                data[0].kwargs["x"][0] = 99.0  # in-place write into the array held by the trace
            elif data:
                data[0].kwargs["x"] = [7, 8]
                data[0].show = False
            else:
                tgt.style.model3d.showdefault = False

    def tree_op():
        if not isinstance(tgt, m.Collection):
            return
        if op["kind"] == "add":
            s = m.Sensor()
            state.extra.append(s)
            tgt.add(s)
        elif op["kind"] == "remove" and tgt.children:
            tgt.remove(tgt.children[0])
        elif op["kind"] == "clear":
            tgt.children = []

    def reparent():
        c = m.Collection()
        state.extra.append(c)
        root.parent = c if op["kind"] == "new" else None

    def second_copy():
        kw2 = {"none": {}, "bad_attr": {"position": (1.0, 2.0)}, "bad_style": {"style_bogus_leaf": 1},
               "bad_name": {"no_such_attribute_xyz": 1}, "good": {"style_label": "again"}}[op.get("kw", "none")]
        c2 = root.copy(**kw2)
        state.extra.append(c2)

    fn = {"attr": attr_assign, "inplace": inplace, "path": path_op, "style": style_op, "tree": tree_op,
          "reparent": reparent, "second_copy": second_copy}[k]
    own_before = _snap_side(root) if k == "second_copy" else None
    own_parent = root._parent  # pylint: disable=protected-access
    r = build.call(fn)
    if not r.ok:
        ctx.label("mutation_rejected:" + type(r.exc).__name__)
    if k == "second_copy":
        # copying (also a copy that is rejected) must not change the copied object
        own_after = _snap_side(root)
        for a, b in zip(own_before, own_after):
            d = build.diff_snap(a, b)
            if d:
                out.append(Violation({"sub": "copy_changed_original", "what": d, "raised": not r.ok, "kw": op.get("kw", "none")},
                                     f"copy(**{op.get('kw', 'none')}) of the {which} changed its {d}"))
                break
        if root._parent is not own_parent:  # pylint: disable=protected-access
            out.append(Violation({"sub": "copy_changed_original", "what": ["parent"], "raised": not r.ok, "kw": op.get("kw", "none")},
                                 f"copy(**{op.get('kw', 'none')}) of the {which} changed its parent"))
    _check_independent(state, which, op, out)
    return out


def finish(state, init, ops, ctx):
    case = {"init": init, "ops": ops}
    deep = trees.depth(init["object"]) >= 2
    nt = (init.get("with_parent") or init["style_state"] not in ("initialised",) or deep) and state.mutations >= 1 and state.copy is not None
    ctx.label("style_state:" + init["style_state"])
    ctx.label("class:" + init["object"]["cls"])
    if nt:
        ctx.mark_nontrivial(case)
        ctx.sample(case, nontrivial=True)
    else:
        ctx.sample(case)


def run_case(case, ctx):
    return machine.replay_history(sys.modules[__name__], case, ctx)


# ------------------------------------------------------------------------------- machine

_leaf = st.one_of(gen.source_spec(classes=gen.ALL_SOURCES, max_path=3, L=1.0), gen.sensor_spec(max_path=3))
_color = st.sampled_from(["green", "#123456", "orange", "black"])


class CopyMachine(machine.VMachine):
    @initialize(data=st.data())
    def setup(self, data):
        kind = data.draw(st.sampled_from(["leaf", "leaf", "tree"]))
        if kind == "leaf":
            obj = data.draw(_leaf)
        else:
            obj = data.draw(trees.collection_spec(gen.source_spec(classes=["Cuboid", "Sphere", "Circle", "Dipole", "Tetrahedron"], max_path=2, L=1.0),
                                                  max_depth=3, max_children=3, sensor=gen.sensor_spec(max_path=2)))
        style_state = data.draw(st.sampled_from(["untouched", "pending", "pending", "initialised", "initialised_from_kwargs"]))
        style_kw = {}
        if style_state in ("pending", "initialised_from_kwargs"):
            style_kw = data.draw(st.sampled_from([{"style_label": "orig"}, {"style_color": "yellow"},
                                                  {"style": {"color": "pink", "opacity": 0.5}},
                                                  {"style_label": "orig", "style_opacity": 0.7},
                                                  {"style_path_line_width": 4}, {"trace_object": True}, {"trace_object": True, "style_label": "orig"}]))
        if style_state == "initialised_from_kwargs":
            # (the initialised state that differs from plain 'initialised' is the one that holds a style object instance)
            style_kw = data.draw(st.sampled_from([{"trace_object": True}, {"trace_object": True, "style_label": "orig"}, {"style_color": "yellow"}]))
        self.start({"object": obj, "with_parent": data.draw(st.booleans()), "style_state": style_state, "style_kw": style_kw})
        names = sorted(OVERRIDES)
        over = [n for n in names if data.draw(st.integers(0, 5)) == 0]
        if "position" in over and "position_path" in over:
            over.remove("position_path")
        if "orientation" in over and "orientation_None" in over:
            over.remove("orientation")
        self.do({"op": "copy", "overrides": over})

    def _ready(self):
        return self.state is not None and self.state.copy is not None

    @precondition(lambda self: self._ready())
    @rule(side=st.sampled_from(["orig", "copy"]), member=st.integers(0, 7),
          attr=st.sampled_from(["position", "orientation", "polarization", "magnetization", "dimension", "diameter", "vertices", "current",
                                "moment", "pixel", "handedness"]), data=st.data())
    def attr(self, side, member, attr, data):
        vals = {
            "position": [0.11, 0.22, 0.33], "orientation": data.draw(gen.quaternion()), "polarization": [0.4, 0.5, -0.6],
            "magnetization": [1e5, -2e5, 3e5], "dimension": None, "diameter": 1.7, "vertices": None, "current": -2.5,
            "moment": [0.1, 0.2, 0.3], "pixel": [[0.0, 0.0, 0.0], [0.1, 0.1, 0.1]], "handedness": "left",
        }
        v = vals[attr]
        if attr == "dimension":
            v = data.draw(st.sampled_from([[1.1, 1.2, 1.3], [0.9, 1.4], [0.2, 0.6, 0.8, 10.0, 100.0]]))
        if attr == "vertices":
            v = data.draw(st.sampled_from([[[0, 0, 0], [1, 0, 0], [0, 1, 0], [0, 0, 1.5]], [[0, 0, 0], [1, 0, 0], [0, 1.2, 0]],
                                           [[0, 0, 0], [1, 1, 0], [2, 0, 1]]]))
        self.do({"op": "attr", "side": side, "member": member, "attr": attr, "value": v})

    @precondition(lambda self: self._ready())
    @rule(side=st.sampled_from(["orig", "copy"]), member=st.integers(0, 7),
          attr=st.sampled_from(["position", "polarization", "magnetization", "dimension", "vertices", "moment", "pixel", "faces", "mesh"]))
    def inplace(self, side, member, attr):
        self.do({"op": "inplace", "side": side, "member": member, "attr": attr})

    @precondition(lambda self: self._ready())
    @rule(side=st.sampled_from(["orig", "copy"]), member=st.integers(0, 7), kind=st.sampled_from(["move", "rotate"]))
    def path(self, side, member, kind):
        self.do({"op": "path", "side": side, "member": member, "kind": kind, "value": [[0.1, 0.2, 0.3], [0.2, 0.4, 0.6]]})

    @precondition(lambda self: self._ready())
    @rule(side=st.sampled_from(["orig", "copy"]), member=st.integers(0, 7), how=st.sampled_from(["attr", "update", "dict", "nested", "model3d", "trace", "trace"]), value=_color)
    def style(self, side, member, how, value):
        self.do({"op": "style", "side": side, "member": member, "how": how, "value": value})

    @precondition(lambda self: self._ready())
    @rule(side=st.sampled_from(["orig", "copy"]), member=st.integers(0, 7), kind=st.sampled_from(["add", "remove", "clear"]))
    def tree(self, side, member, kind):
        self.do({"op": "tree", "side": side, "member": member, "kind": kind})

    @precondition(lambda self: self._ready())
    @rule(side=st.sampled_from(["orig", "copy"]), kind=st.sampled_from(["new", "none"]))
    def reparent(self, side, kind):
        self.do({"op": "reparent", "side": side, "kind": kind})

    @precondition(lambda self: not self._ready())
    @rule()
    def idle(self):
        """nothing to mutate: the copy itself was the (failed or excluded) step"""

    @precondition(lambda self: self._ready())
    @rule(side=st.sampled_from(["orig", "copy"]), kw=st.sampled_from(["none", "good", "bad_attr", "bad_style", "bad_name"]))
    def second_copy(self, side, kw):
        self.do({"op": "second_copy", "side": side, "kw": kw})


def make_machine(tier, sess):
    return machine.bind(CopyMachine, sys.modules[__name__], sess)
