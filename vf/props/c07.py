"""C07  All interfaces to the same computation return the same numbers.

Reference: object-oriented call getX(obj_i, obs_i) per instance.  Compared forms: source
method, sensor method, collection forms, functional interface with single (tiled) and
per-instance parameters mixed, magpylib.core functions (with the argument convention of their
docstrings), output='dataframe'.
"""
from __future__ import annotations

import numpy as np
from hypothesis import strategies as st
from scipy.spatial.transform import Rotation as R

from vf import build, gen, geom
from vf import core
from vf.core import Violation, exc_sig

ID = "C07"
LEVEL = "exploration"
TECHNIQUE = "property-based differential testing between call forms of one configuration (Hypothesis)"
RULE = (
    "case = source class (all 10 registered field classes), n=1..4 instances with per-instance geometry, excitation, "
    "pose and observer; a generated subset of parameters is shared by all instances and then passed as a single "
    "(tiled) set; forms compared against getX(obj_i, obs_i): src.getX, sens.getX, Collection forms, "
    "getX('Class', obs, **params) with position/orientation arguments, magpylib.core.* in the local frame, "
    "output='dataframe'; X in B,H,J,M. non-trivial = class outside {Cuboid,Cylinder,Sphere,Dipole,Circle}, or single "
    "and per-instance parameters mixed, or a collection form compared; distinct = canonical hash"
)
ASSUMPTIONS = [
    "object-oriented top-level call is the reference",
    "tolerance 1e-9 of the field magnitude (+ 8-ulp displacement allowance); core functions 1e-8",
]

FUNC = {
    "Cuboid": ["dimension", "polarization"],
    "Cylinder": ["dimension", "polarization"],
    "CylinderSegment": ["dimension", "polarization"],
    "Sphere": ["diameter", "polarization"],
    "Tetrahedron": ["vertices", "polarization"],
    "Triangle": ["vertices", "polarization"],
    "TriangularMesh": ["mesh", "polarization"],
    "Circle": ["diameter", "current"],
    "Polyline": ["segment_start", "segment_end", "current"],
    "Dipole": ["moment"],
}
SUITE_CLASSES = {"Cuboid", "Cylinder", "Sphere", "Dipole", "Circle"}


def budget(tier):
    return {"examples": 2500 if tier == "quick" else 100000, "fuzz_runs": 0 if tier == "quick" else 20000}


@st.composite
def case_strategy(draw):
    cls = draw(st.sampled_from(sorted(FUNC) + ["CustomSource"]))
    n = draw(st.integers(1, 4))
    base = draw(gen.source_spec(classes=[cls], max_path=1, L=1.0, pos_extent=1.0))
    if cls == "Polyline":
        base["vertices"] = base["vertices"][:2]
    insts = [base]
    for _ in range(n - 1):
        v = draw(gen.source_spec(classes=[cls], max_path=1, L=1.0, pos_extent=1.0))
        if cls == "Polyline":
            v["vertices"] = v["vertices"][:2]
        if cls == "TriangularMesh":
            # functional interface takes one array of meshes: equal face counts per instance
            v = draw(gen.variant_of(base, max_path=1))
        insts.append(v)
    names = FUNC.get(cls, []) + ["position", "orientation"]
    shared = [nm for nm in names if draw(st.integers(0, 2)) == 0] if n > 1 else []
    for nm in shared:
        for v in insts[1:]:
            if nm in ("segment_start", "segment_end"):
                k = 0 if nm == "segment_start" else 1
                v["vertices"] = [list(x) for x in v["vertices"]]
                v["vertices"][k] = list(base["vertices"][k])
            elif nm == "mesh":
                v["vertices"], v["faces"] = base["vertices"], base["faces"]
            else:
                v[nm] = base[nm]
    # repair degenerate segments created by sharing one end
    if cls == "Polyline":
        for v in insts:
            a, b = np.array(v["vertices"][0]), np.array(v["vertices"][1])
            if np.linalg.norm(a - b) < 0.02:
                v["vertices"][1] = [float(x) for x in (a + np.array([0.31, -0.17, 0.23]))]
    obs = []
    for v in insts:
        o = draw(gen.region_observers(v, n_min=1, n_max=1, regions="well_conditioned"))[0]
        obs.append({"region": o["region"], "global": [float(x) for x in build.to_global(v, o["local"])]})
    share_obs = n > 1 and draw(st.integers(0, 3)) == 0
    if share_obs:
        obs = [obs[0]] * n
    return {"cls": cls, "instances": insts, "shared": shared, "share_obs": share_obs, "observers": obs,
            "field": draw(st.sampled_from(["B", "H", "B", "H", "J", "M"])),
            "use_magnetization": draw(st.integers(0, 5)) == 0,
            "as_list": draw(st.booleans())}


def strategy(tier):
    return case_strategy()


# --------------------------------------------------------------------------------------


def _func_value(cls, name, spec):
    if name == "mesh":
        V = np.asarray(spec["vertices"], dtype=float)
        F = geom.orient_outward(V, spec["faces"])
        return V[F]
    if name == "segment_start":
        return np.asarray(spec["vertices"][0], dtype=float)
    if name == "segment_end":
        return np.asarray(spec["vertices"][1], dtype=float)
    if name == "orientation":
        return np.asarray(spec["orientation"][0], dtype=float)
    if name == "position":
        return np.asarray(spec["position"][0], dtype=float)
    return np.asarray(spec[name], dtype=float)


def _core(cls, field, spec, p_local):
    """(value in local frame, what) via magpylib.core, or None when no core function maps."""
    core = build.magpy.core
    mu0 = build.magpy.mu_0
    o = np.asarray(p_local, dtype=float)[None]
    if field not in "BH":
        return None
    body = geom.body_from_spec(spec)
    inside = bool(body.inside(o)[0]) if body.kind == "magnet" else False
    pol = np.asarray(spec.get("polarization", [0, 0, 0]), dtype=float)

    def conv(B=None, H=None):
        if field == "B":
            return B if B is not None else mu0 * H + (pol if inside else 0)
        return H if H is not None else (B - (pol if inside else 0)) / mu0

    if cls == "Cuboid":
        return conv(B=core.magnet_cuboid_Bfield(o, np.array([spec["dimension"]], dtype=float), pol[None])[0])
    if cls == "Sphere":
        return conv(B=core.magnet_sphere_Bfield(o, np.array([spec["diameter"]], dtype=float), pol[None])[0])
    if cls == "Dipole":
        return conv(H=core.dipole_Hfield(o, np.array([spec["moment"]], dtype=float))[0])
    if cls == "Triangle":
        return conv(B=core.triangle_Bfield(o, np.array([spec["vertices"]], dtype=float), pol[None])[0])
    if cls == "Polyline":
        V = np.asarray(spec["vertices"], dtype=float)
        keep = np.any(V[:-1] != V[1:], axis=1)  # the core function is documented for segments of non-zero length
        A, B = V[:-1][keep], V[1:][keep]
        n = len(A)
        return conv(H=np.sum(core.current_polyline_Hfield(np.repeat(o, n, 0), A, B, np.full(n, float(spec["current"]))), axis=0))
    if cls == "Circle":
        r0 = spec["diameter"] / 2
        r, phi = np.hypot(o[0, 0], o[0, 1]), np.arctan2(o[0, 1], o[0, 0])
        Hr, Hphi, Hz = np.asarray(core.current_circle_Hfield(np.array([r0]), np.array([r]), np.array([o[0, 2]]),
                                                              np.array([spec["current"]], dtype=float)))[:, 0]
        return conv(H=np.array([Hr * np.cos(phi) - Hphi * np.sin(phi), Hr * np.sin(phi) + Hphi * np.cos(phi), Hz]))
    if cls == "Cylinder":
        d, h = spec["dimension"]
        r0 = d / 2
        r, phi, z = np.hypot(o[0, 0], o[0, 1]), np.arctan2(o[0, 1], o[0, 0]), o[0, 2]
        # axial part (unit polarization, dimensionless lengths): B; diametral part (unit magnetization): H
        Bax = np.asarray(core.magnet_cylinder_axial_Bfield(np.array([h / 2 / r0]), np.array([r / r0]), np.array([z / r0])))[:, 0] * pol[2]
        pxy = np.hypot(pol[0], pol[1])
        th = np.arctan2(pol[1], pol[0])
        Hd = np.asarray(core.magnet_cylinder_diametral_Hfield(np.array([h / 2 / r0]), np.array([r / r0]), np.array([z / r0]),
                                                               np.array([phi - th])))[:, 0] * pxy / mu0
        Br, Bphi, Bz = Bax
        Hr, Hphi, Hz = Hd
        B_ax = np.array([Br * np.cos(phi) - Bphi * np.sin(phi), Br * np.sin(phi) + Bphi * np.cos(phi), Bz])
        H_d = np.array([Hr * np.cos(phi) - Hphi * np.sin(phi), Hr * np.sin(phi) + Hphi * np.cos(phi), Hz])
        Btot = B_ax + mu0 * H_d + (np.array([pol[0], pol[1], 0.0]) if inside else 0)
        return conv(B=Btot)
    if cls == "CylinderSegment":
        r1, r2, h, p1, p2 = spec["dimension"]
        if p2 - p1 >= 360:
            return None
        r, phi, z = np.hypot(o[0, 0], o[0, 1]), np.arctan2(o[0, 1], o[0, 0]), o[0, 2]
        m = np.linalg.norm(pol) / mu0
        phi_m = np.arctan2(pol[1], pol[0])
        th_m = np.arctan2(np.hypot(pol[0], pol[1]), pol[2])
        Hc = core.magnet_cylinder_segment_Hfield(
            observers=np.array([[r, phi, z]]), dimensions=np.array([[r1, r2, np.deg2rad(p1), np.deg2rad(p2), -h / 2, h / 2]]),
            magnetizations=np.array([[m, phi_m, th_m]]))[0]
        Hr, Hphi, Hz = Hc
        return conv(H=np.array([Hr * np.cos(phi) - Hphi * np.sin(phi), Hr * np.sin(phi) + Hphi * np.cos(phi), Hz]))
    return None


def run_case(case, ctx):
    magpy = build.magpy
    cls, field = case["cls"], case["field"]
    fn = getattr(magpy, "get" + field)
    insts = case["instances"]
    n = len(insts)
    objs = [build.build_source(s) for s in insts]
    obs = np.array([o["global"] for o in case["observers"]], dtype=float)
    out = []
    ctx.label(f"class:{cls}")
    ctx.label(f"field:{field}")

    # reference
    ref = np.zeros((n, 3))
    for i in range(n):
        r = build.call(fn, objs[i], obs[i], squeeze=False)
        if not r.ok:
            return [Violation({"sub": "reference_raised", "cls": cls, **exc_sig(r.exc)}, repr(r.exc)[:300])]
        ref[i] = np.asarray(r.value).reshape(3)
    mag = np.max(np.abs(ref), axis=1, keepdims=True)
    fs = np.array([[build.field_scale(s) * (1.0 if field in "BJ" else 1.0 / magpy.mu_0)] for s in insts])
    # comparison scale per instance: the field magnitude there, but not less than 1e-3 of the natural magnitude of the
    # source's field at that distance (a value that is a small difference of large terms carries their absolute error)
    nat = np.array([[build.natural_scale(insts[i], geom.body_from_spec(insts[i]),
                                         float(geom.body_from_spec(insts[i]).dist(build.to_local(insts[i], obs[i])[None])[0]) / geom.body_from_spec(insts[i]).L, field)]
                    for i in range(n)]) if cls != "CustomSource" else np.zeros((n, 1))
    sc = np.maximum(np.maximum(mag, fs * 1e-6), 1e-3 * nat) * np.ones((1, 3))

    def noise():
        nz = np.zeros((n, 3))
        for i in range(n):
            m_ = max(float(np.max(np.abs(obs[i]))), 1e-300)
            for ax in range(3):
                for sg in core.NOISE_STEPS:
                    d = np.zeros(3)
                    d[ax] = sg * m_
                    r = build.call(fn, objs[i], obs[i] + d, squeeze=False)
                    if r.ok:
                        nz[i] = np.maximum(nz[i], core.probe_diff(np.asarray(r.value).reshape(3), ref[i]))
            # the library's own accuracy band at that observer (C01 envelope; inf where C01 asserts nothing)
            from vf.props import c01  # pylint: disable=import-outside-toplevel

            if cls in c01.tolerances():
                bnd = float(c01.accuracy_band(cls, geom.body_from_spec(insts[i]), build.to_local(insts[i], obs[i])[None])[0])
                if bnd > 1e-5:
                    ctx.label("observer_in_wide_accuracy_band")
                    nz[i] = np.maximum(nz[i], (3.0 * bnd / 20.0) * float(mag[i, 0]))
        return nz

    nz_cache = []

    def compare(form, val, tol=1e-9, shape=None):
        val = np.asarray(val, dtype=float)
        want = ref if shape is None else ref.reshape(shape)
        if val.shape != want.shape:
            out.append(Violation({"sub": "shape", "form": form, "cls": cls},
                                 f"{form}: shape {val.shape}, expected {want.shape}"))
            return
        v = val.reshape(n, 3)
        with np.errstate(invalid="ignore"):
            bad = ~(np.abs(v - ref) <= tol * sc) & ~(np.isnan(v) & np.isnan(ref))
        if np.any(bad):
            if not nz_cache:
                nz_cache.append(noise())
            with np.errstate(invalid="ignore"):
                bad = ~(np.abs(v - ref) <= tol * sc + 20 * nz_cache[0]) & ~(np.isnan(v) & np.isnan(ref))
            if not np.any(bad):
                ctx.label("illconditioned_tolerated")
        if np.any(bad):
            err = float(np.nanmax(np.abs(v - ref) / sc))
            out.append(Violation({"sub": "value", "form": form, "cls": cls, "magnitude": "O(1)" if err > 1e-3 else "small"},
                                 f"{form}: max rel deviation from getX(obj, obs) {err:.3g} (field {field}, n={n})"))

    def attempt(form, f, **kw):
        r = build.call(f)
        if not r.ok:
            out.append(Violation({"sub": "form_raised", "form": form, "cls": cls, **exc_sig(r.exc)},
                                 f"{form}: {type(r.exc).__name__}: {str(r.exc)[:200]}"))
            return
        compare(form, r.value, **kw)

    # (b) source method, (c) sensor method, (d) collection forms: instance by instance
    nt_coll = False
    vals = []
    for i in range(n):
        r = build.call(getattr(objs[i], "get" + field), obs[i])
        if not r.ok:
            out.append(Violation({"sub": "form_raised", "form": "src.getX(obs)", "cls": cls, **exc_sig(r.exc)}, repr(r.exc)[:200]))
            break
        vals.append(np.asarray(r.value).reshape(3))
    else:
        compare("src.getX(obs)", np.array(vals))
    vals = []
    for i in range(n):
        s = magpy.Sensor(position=obs[i])
        r = build.call(getattr(s, "get" + field), objs[i])
        if not r.ok:
            out.append(Violation({"sub": "form_raised", "form": "sens.getX(src)", "cls": cls, **exc_sig(r.exc)}, repr(r.exc)[:200]))
            break
        vals.append(np.asarray(r.value).reshape(3))
    else:
        compare("sens.getX(src)", np.array(vals))
    # collection forms on fresh copies (a source can only have one parent)
    vals, vals2 = [], []
    ok = True
    for i in range(n):
        o2 = build.build_source(insts[i])
        coll = magpy.Collection(o2)
        r = build.call(getattr(coll, "get" + field), obs[i])
        s = magpy.Sensor(position=obs[i])
        coll.add(s)
        r2 = build.call(getattr(coll, "get" + field))
        for form, rr, acc in (("coll.getX(obs)", r, vals), ("coll.getX()", r2, vals2)):
            if not rr.ok:
                out.append(Violation({"sub": "form_raised", "form": form, "cls": cls, **exc_sig(rr.exc)}, repr(rr.exc)[:200]))
                ok = False
            else:
                acc.append(np.asarray(rr.value).reshape(3))
        if not ok:
            break
    if ok:
        nt_coll = True
        compare("coll.getX(obs)", np.array(vals))
        compare("coll.getX()", np.array(vals2))

    # (d2) multi-source forms: list of all instances x all observers, sensor method with several
    # sources, one collection holding all instances
    if n > 1:
        ref_full = np.zeros((n, n, 3))
        okf = True
        for l in range(n):
            for k in range(n):
                r = build.call(fn, objs[l], obs[k], squeeze=False)
                if not r.ok:
                    okf = False
                    break
                ref_full[l, k] = np.asarray(r.value).reshape(3)
        if okf:
            # observer k was constructed for instance k; relative to another instance l it may fall
            # anywhere, also within rounding distance of l's surface or axis: such pairs are not compared
            from vf.props import c01 as _c01  # pylint: disable=import-outside-toplevel

            for l in range(n):
                body_l = geom.body_from_spec(insts[l])
                for k in range(n):
                    pl = build.to_local(insts[l], obs[k])
                    if l != k:
                        if float(body_l.dist(pl[None])[0]) < 1e-3 * body_l.L or \
                                (hasattr(body_l, "r2") and np.hypot(pl[0], pl[1]) < 1e-3 * body_l.r2):
                            ref_full[l, k] = np.nan
                    # pairs where the library's own accuracy band is wide (or C01 asserts nothing) are not compared either:
                    # a batch and a single evaluation of an ill-conditioned value differ by as much as the band
                    if cls in _c01.tolerances() and float(_c01.accuracy_band(cls, body_l, pl[None])[0]) > 1e-4:
                        ref_full[l, k] = np.nan
            with np.errstate(invalid="ignore"):
                scf = np.fmax(np.max(np.abs(ref_full), axis=-1, keepdims=True), np.max(fs) * 1e-6) * np.ones(3)
            sens_all = [magpy.Sensor(position=o) for o in obs]
            nzf_cache = []

            def cmp_full(form, val, want):
                val = np.asarray(val, dtype=float)
                if val.shape != want.shape:
                    out.append(Violation({"sub": "shape", "form": form, "cls": cls}, f"{form}: shape {val.shape}, expected {want.shape}"))
                    return
                scale = scf if want.shape == scf.shape else np.nansum(scf, axis=0)
                with np.errstate(invalid="ignore"):
                    bad = ~(np.abs(val - want) <= 1e-5 * scale) & ~np.isnan(want)
                if np.any(bad):
                    if not nzf_cache:
                        nzf = np.zeros((n, n, 3))
                        for l_ in range(n):
                            for k_ in range(n):
                                m_ = max(float(np.max(np.abs(obs[k_]))), 1e-300)
                                for ax in range(3):
                                    for sg in core.NOISE_STEPS:
                                        d = np.zeros(3)
                                        d[ax] = sg * m_
                                        rr = build.call(fn, objs[l_], obs[k_] + d, squeeze=False)
                                        if rr.ok:
                                            with np.errstate(invalid="ignore"):
                                                nzf[l_, k_] = np.fmax(nzf[l_, k_], np.where(np.isnan(ref_full[l_, k_]), 0.0, core.probe_diff(np.asarray(rr.value).reshape(3), ref_full[l_, k_])))
                        nzf_cache.append(nzf)
                    nzf = nzf_cache[0]
                    nz_ = nzf if want.shape == nzf.shape else (nzf[:, 0] if want.shape == nzf[:, 0].shape else np.nansum(nzf, axis=0))
                    with np.errstate(invalid="ignore"):
                        bad = ~(np.abs(val - want) <= 1e-5 * scale + 20 * nz_) & ~np.isnan(want)
                    if not np.any(bad):
                        ctx.label("illconditioned_tolerated")
                if np.any(bad):
                    err = float(np.nanmax(np.abs(val - want) / scale))
                    out.append(Violation({"sub": "value", "form": form, "cls": cls, "magnitude": "O(1)" if err > 1e-3 else "small"},
                                         f"{form}: max rel deviation from single calls {err:.3g} (field {field}, n={n})"))

            r = build.call(fn, objs, sens_all, squeeze=False)
            if r.ok:
                cmp_full("getX([srcs],[sensors])", np.asarray(r.value)[:, 0, :, 0, :], ref_full)
            else:
                out.append(Violation({"sub": "form_raised", "form": "getX([srcs],[sensors])", "cls": cls, **exc_sig(r.exc)}, repr(r.exc)[:200]))
            r = build.call(getattr(sens_all[0], "get" + field), *objs, squeeze=False)
            if r.ok:
                cmp_full("sens.getX(*srcs)", np.asarray(r.value)[:, 0, 0, 0, :], ref_full[:, 0])
            else:
                out.append(Violation({"sub": "form_raised", "form": "sens.getX(*srcs)", "cls": cls, **exc_sig(r.exc)}, repr(r.exc)[:200]))
            call_all = magpy.Collection(*[build.build_source(s) for s in insts])
            r = build.call(getattr(call_all, "get" + field), *sens_all, squeeze=False)
            if r.ok:
                cmp_full("Collection(all).getX(sensors)", np.asarray(r.value)[0, 0, :, 0, :], np.sum(ref_full, axis=0))
            else:
                out.append(Violation({"sub": "form_raised", "form": "Collection(all).getX(sensors)", "cls": cls, **exc_sig(r.exc)}, repr(r.exc)[:200]))
            # the same forms with sumup=True: one leading entry holding the sum over the sources
            tot = np.sum(ref_full, axis=0)  # (k, 3); nan where some pair was excluded
            r = build.call(fn, objs, sens_all, squeeze=False, sumup=True)
            if r.ok:
                cmp_full("getX([srcs],[sensors],sumup)", np.asarray(r.value)[0, 0, :, 0, :] if np.asarray(r.value).shape[0] == 1 else np.asarray(r.value), tot)
            else:
                out.append(Violation({"sub": "form_raised", "form": "getX([srcs],[sensors],sumup)", "cls": cls, **exc_sig(r.exc)}, repr(r.exc)[:200]))
            r = build.call(getattr(sens_all[0], "get" + field), *objs, squeeze=False, sumup=True)
            if r.ok:
                v = np.asarray(r.value)
                cmp_full("sens.getX(*srcs,sumup)", v[0, 0, 0, 0, :] if v.shape[0] == 1 else v, tot[0])
            else:
                out.append(Violation({"sub": "form_raised", "form": "sens.getX(*srcs,sumup)", "cls": cls, **exc_sig(r.exc)}, repr(r.exc)[:200]))
            ctx.label("multi_source_forms_compared")

    if cls not in FUNC:
        ctx.mark_nontrivial(case)
        ctx.sample(case, nontrivial=True)
        return _uniq(out)

    # (e) functional interface
    kw = {}
    for name in FUNC[cls]:
        key = name
        vals = [_func_value(cls, name, s) for s in insts]
        if name == "polarization" and case["use_magnetization"]:
            key = "magnetization"
            vals = [v / magpy.mu_0 for v in vals]
        if name in case["shared"] or n == 1:
            v = vals[0]
            if v.ndim == 0:
                v = float(v)  # a single scalar parameter is a Python number, as in the docs' examples
        else:
            v = np.array(vals)
        kw[key] = v.tolist() if case["as_list"] and isinstance(v, np.ndarray) else v
    pos = [_func_value(cls, "position", s) for s in insts]
    ori = [_func_value(cls, "orientation", s) for s in insts]
    kw["position"] = pos[0] if ("position" in case["shared"] or n == 1) else np.array(pos)
    kw["orientation"] = R.from_quat(ori[0]) if ("orientation" in case["shared"] or n == 1) else R.from_quat(np.array(ori))
    fobs = obs[0] if (case["share_obs"] or n == 1) else obs
    mixed = 0 < len(case["shared"]) < len(FUNC[cls]) + 2
    form = "functional(single)" if n == 1 else ("functional(mixed)" if mixed else "functional(arrays)")
    all_single = n > 1 and case["share_obs"] and all(nm in case["shared"] for nm in FUNC[cls] + ["position", "orientation"])
    r = build.call(fn, cls, fobs, squeeze=False, **kw)
    raw_shape = np.asarray(r.value).shape if r.ok else None
    if r.ok and all_single:
        # nothing in the call carries the instance count: one parameter set, one result row
        ctx.label("functional_all_single")
        if np.asarray(r.value).shape == (1, 3):
            r.value = np.repeat(np.asarray(r.value), n, axis=0)
    if not r.ok:
        out.append(Violation({"sub": "form_raised", "form": form, "cls": cls, "magnetization_kw": "magnetization" in kw,
                              **exc_sig(r.exc)},
                             f"getX('{cls}', obs, ...) with shared={case['shared']} n={n}: {type(r.exc).__name__}: {str(r.exc)[:200]}"))
    else:
        compare(form, r.value)
        r2 = build.call(fn, cls, fobs, squeeze=True, **kw)
        if r2.ok and np.asarray(r2.value).shape != np.squeeze(np.zeros(raw_shape)).shape:
            out.append(Violation({"sub": "shape", "form": "functional squeeze", "cls": cls},
                                 f"squeeze=True shape {np.asarray(r2.value).shape}"))

    # (f) core functions, local frame
    for i in range(n):
        p_loc = build.to_local(insts[i], obs[i])
        if cls != "CustomSource" and float(geom.body_from_spec(insts[i]).dist(p_loc[None])[0]) < 1e-3 * geom.body_from_spec(insts[i]).L:
            # (a shared observer was constructed for instance 0 and may lie on the surface of another instance: the
            #  object interface applies its on-surface convention there, the bare core formula does not)
            ctx.label("core_skipped_observer_on_surface")
            continue
        rc = build.call(_core, cls, field, insts[i], p_loc)
        if not rc.ok:
            out.append(Violation({"sub": "form_raised", "form": "core", "cls": cls, **exc_sig(rc.exc)}, repr(rc.exc)[:200]))
            break
        if rc.value is None:
            break
        _, rot = build.pose_at(insts[i], 0)
        v = rot.apply(np.asarray(rc.value, dtype=float))
        with np.errstate(invalid="ignore"):
            bad = ~(np.abs(v - ref[i]) <= 1e-8 * sc[i])
        if np.any(bad):
            if not nz_cache:
                nz_cache.append(noise())
            bad = ~(np.abs(v - ref[i]) <= 1e-8 * sc[i] + 20 * nz_cache[0][i])
        if np.any(bad) and np.all(np.isfinite(v)) and np.all(np.isfinite(ref[i])):
            err = float(np.max(np.abs(v - ref[i]) / sc[i]))
            out.append(Violation({"sub": "value", "form": "core", "cls": cls, "magnitude": "O(1)" if err > 1e-3 else "small"},
                                 f"magpylib.core route for {cls} deviates {err:.3g} (field {field}, region {case['observers'][i]['region']})"))
            break
    else:
        ctx.label("core_compared")

    # (g) dataframe
    rdf = build.call(fn, objs, [magpy.Sensor(position=o) for o in obs], output="dataframe")
    rnd = build.call(fn, objs, [magpy.Sensor(position=o) for o in obs], squeeze=False)
    if rdf.ok and rnd.ok:
        df = rdf.value
        arr = np.asarray(rnd.value)
        cols = [field + k for k in "xyz"]
        if list(df.columns) != ["source", "path", "sensor", "pixel"] + cols:
            out.append(Violation({"sub": "dataframe_columns"}, f"columns {list(df.columns)}"))
        else:
            flat = arr.reshape(-1, 3)
            dv = df[cols].to_numpy(dtype=float)
            if dv.shape != flat.shape or not np.array_equal(dv, flat, equal_nan=True):
                out.append(Violation({"sub": "dataframe_values", "cls": cls}, "dataframe rows differ from flattened ndarray"))
            # documented order: product(source, path, sensor, pixel)
            exp_src = np.repeat(np.arange(n), n)
            codes = {name: k for k, name in enumerate(dict.fromkeys(df["source"]))}
            if [codes[s] for s in df["source"]] != exp_src.tolist():
                out.append(Violation({"sub": "dataframe_order"}, "source column not in product order"))
    elif not rdf.ok:
        out.append(Violation({"sub": "form_raised", "form": "dataframe", "cls": cls, **exc_sig(rdf.exc)}, repr(rdf.exc)[:200]))

    nt = cls not in SUITE_CLASSES or mixed or nt_coll
    if cls not in SUITE_CLASSES:
        ctx.label("nt:class_not_in_suite_functional_tests")
    if mixed:
        ctx.label("nt:mixed_single_and_per_instance")
    if nt:
        ctx.mark_nontrivial(case)
        ctx.sample(case, nontrivial=True)
    else:
        ctx.sample(case)
    return _uniq(out)


def _uniq(out):
    """one violation per signature is enough"""
    seen, uniq = set(), []
    for v in out:
        k = v.sig_key()
        if k not in seen:
            seen.add(k)
            uniq.append(v)
    return uniq
