"""C04  A Sensor reports the global field at its pixels, in its own frame.

Oracle: for every sensor k and path index m the harness computes the global pixel positions
itself (R_km * pixel + p_km; shorter paths held at their last pose), asks the library for the
field of *static copies* of the sources at those plain positions (global frame, no Sensor
object involved), rotates by R_km^-1, negates x for left-handed sensors and applies the named
NumPy reduction over that sensor's pixel axes.
"""
from __future__ import annotations

import numpy as np
from hypothesis import strategies as st
from scipy.spatial.transform import Rotation as R

from vf import build, gen, geom
from vf import core
from vf.core import Violation, exc_sig

ID = "C04"
LEVEL = "exploration"
TECHNIQUE = "property-based differential testing: Sensor call vs harness-computed global pixel positions + plain-position calls (Hypothesis)"
RULE = (
    "case = 1-3 sources with path lengths 1-5, 1-4 sensors with independent pixel shapes "
    "(None,(3,),(n,3),(n1,n2,3),(1,1,3)), path kind static/translation-only (also sign-flipped quaternions)/rotating, "
    "handedness, pixel_agg in {None,mean,sum,min,max,median,std,ptp,var}, sumup, squeeze, fields B,H,J,M; sensor "
    "positions built inside/near the bodies. Different pixel shapes only with pixel_agg. non-trivial = >=2 sensors "
    "with different pixel shapes under pixel_agg, or a rotating sensor path with M>=2, or a left-handed sensor, or "
    "mixed path kinds / unequal path lengths in one call; distinct = canonical hash"
)
ASSUMPTIONS = [
    "reference field values at plain global positions come from the library (static copies of the sources)",
    "scipy Rotation is trusted for rotation algebra",
    "tolerance 1e-9 of the field magnitude at the pixel (plus an 8-ulp displacement allowance, see C06)",
]

AGGS = [None, None, "mean", "sum", "min", "max", "median", "std", "ptp", "var"]
PIX_SHAPES = [None, (3,), (1, 3), (2, 3), (3, 3), (5, 3), (2, 2, 3), (1, 1, 3), (2, 1, 3), (3, 2, 3)]


def budget(tier):
    return {"examples": 3000 if tier == "quick" else 100000}


@st.composite
def case_strategy(draw):
    nsrc = draw(st.integers(1, 3))
    sources = [draw(gen.source_spec(max_path=5, L=1.0, pos_extent=1.0)) for _ in range(nsrc)]
    agg = draw(st.sampled_from(AGGS))
    nsens = draw(st.integers(1, 4))
    common_shape = draw(st.sampled_from(PIX_SHAPES))
    sensors = []
    for _ in range(nsens):
        plen = draw(st.integers(1, 5))
        anchor = sources[draw(st.integers(0, nsrc - 1))]
        body = geom.body_from_spec(anchor)
        pos = []
        for m in range(plen):
            reg = draw(st.sampled_from(["inside", "near_out", "near_in", "generic", "generic"]))
            p = geom.observer_in_region(body, reg if reg in geom.regions_for(body) else "generic", draw(gen.uniforms(8)), clear=3e-2)
            if p is None:
                p = np.array([0.9, 1.2, -1.1])
            pos.append([float(x) for x in build.to_global(anchor, p, m)])
        kind = draw(st.sampled_from(["static", "translate", "translate_flip", "rotate", "rotate", "identity", "identity_neg"]))
        if plen == 1 and kind in ("translate", "translate_flip", "rotate"):
            kind = "static"
        if kind == "identity":
            ori = [[0.0, 0.0, 0.0, 1.0]] * plen
        elif kind == "identity_neg":
            ori = [[0.0, 0.0, 0.0, -1.0]] * plen
        elif kind in ("static", "translate"):
            q = draw(gen.quaternion())
            ori = [q] * plen
        elif kind == "translate_flip":
            q = draw(gen.quaternion())
            ori = [list(q) for _ in range(plen)]
            k = draw(st.integers(0, plen - 1))
            ori[k] = [-x for x in q]
        else:
            ori = [draw(gen.quaternion()) for _ in range(plen)]
        shape = draw(st.sampled_from(PIX_SHAPES)) if agg is not None else common_shape
        if shape is None:
            pixel = None
        else:
            n = int(np.prod(shape[:-1])) if len(shape) > 1 else 1
            # small pixel offsets: stay on the same side of surfaces as the sensor position (clear=3e-2)
            flat = [[gen.r6(draw(gen.ufloat(-0.01, 0.01))) for _ in range(3)] for _ in range(n)]
            pixel = np.array(flat).reshape(shape).tolist()
        sensors.append({"cls": "Sensor", "position": pos, "orientation": ori, "pixel": pixel, "path_kind": kind,
                        "handedness": draw(st.sampled_from(["right", "right", "left"]))})
    return {"sources": sources, "sensors": sensors, "field": draw(st.sampled_from(["B", "H", "B", "H", "J", "M"])),
            "pixel_agg": agg, "sumup": draw(st.booleans()), "squeeze": draw(st.booleans()),
            "iface": draw(st.sampled_from(["top", "top", "sens_method"]))}


def strategy(tier):
    return case_strategy()


def _pix(spec):
    """flat pixel array (n,3) and the pixel shape the library documents for it"""
    p = spec["pixel"]
    if p is None:
        return np.zeros((1, 3)), (1,)
    a = np.asarray(p, dtype=float)
    if a.shape == (3,):
        return a.reshape(1, 3), (1,)
    return a.reshape(-1, 3), a.shape[:-1]


def run_case(case, ctx):
    magpy = build.magpy
    field = case["field"]
    fn = getattr(magpy, "get" + field)
    srcs = [build.build_source(s) for s in case["sources"]]
    sens = [build.build_sensor(s) for s in case["sensors"]]
    agg = case["pixel_agg"]
    kw = {"sumup": case["sumup"], "squeeze": case["squeeze"], "pixel_agg": agg}
    if case["iface"] == "sens_method" and len(sens) == 1:
        res = build.call(getattr(sens[0], "get" + field), *srcs, **kw)
    else:
        res = build.call(fn, srcs, sens, **kw)
    ctx.label(f"agg:{agg}")
    ctx.label(f"field:{field}")
    for s in case["sensors"]:
        ctx.label("sensor_path:" + s["path_kind"])
    if not res.ok:
        return [Violation({"sub": "call_raised", "agg": str(agg), **exc_sig(res.exc)}, repr(res.exc)[:300])]
    got = np.asarray(res.value)

    lens = [len(s["position"]) for s in case["sources"]] + [len(s["position"]) for s in case["sensors"]]
    M = max(lens)
    # ---- reference
    class _Raised(Exception):
        pass

    def reference(shift=None):
        """(ref, scale) with every global pixel position displaced by `shift` (3-vector of relative ulps)"""
        per_sensor = []
        for ks in case["sensors"]:
            pix, pshape = _pix(ks)
            vals = np.zeros((len(srcs), M, len(pix), 3))
            for m in range(M):
                p_k, r_k = build.pose_at(ks, m)
                gp = r_k.apply(pix) + p_k
                if shift is not None:
                    gp = gp + shift * np.maximum(np.max(np.abs(gp), axis=1, keepdims=True), 1e-300)
                for l, sspec in enumerate(case["sources"]):
                    src1 = build.build_source(build.static_copy_spec(sspec, m))
                    r1 = build.call(fn, src1, gp, squeeze=False)
                    if not r1.ok:
                        raise _Raised(Violation({"sub": "plain_call_raised", "cls": sspec["cls"], **exc_sig(r1.exc)}, repr(r1.exc)[:300]))
                    F = np.asarray(r1.value).reshape(len(pix), 3)
                    Floc = r_k.inv().apply(F)
                    if ks["handedness"] == "left":
                        Floc = Floc * np.array([-1.0, 1.0, 1.0])
                    vals[l, m] = Floc
            per_sensor.append((vals, pshape))
        if agg is None:
            ref_ = np.stack([v.reshape(len(srcs), M, *ps, 3) for v, ps in per_sensor], axis=2)
            scl_ = np.stack([(np.max(np.abs(v), axis=-1, keepdims=True) * np.ones(3)).reshape(len(srcs), M, *ps, 3)
                             for v, ps in per_sensor], axis=2)
        else:
            f = getattr(np, agg)
            ref_ = np.stack([f(v, axis=2) for v, _ in per_sensor], axis=2)  # (L, M, K, 3)
            # natural scale of an aggregate: the largest pixel magnitude it was computed from
            big = [np.max(np.abs(v), axis=(2, 3))[..., None] * np.ones(3) for v, _ in per_sensor]
            npx = [v.shape[2] for v, _ in per_sensor]
            if agg == "var":
                big = [b * b for b in big]
            if agg == "sum":
                big = [b * n for b, n in zip(big, npx)]
            scl_ = np.stack(big, axis=2)
        if case["sumup"]:
            # pixel_agg is applied per source before summing (library order: aggregate, then sum)
            ref_ = np.sum(ref_, axis=0, keepdims=True)
            scl_ = np.sum(scl_, axis=0, keepdims=True)
        if agg is not None and not case["squeeze"]:
            ref_ = np.expand_dims(ref_, axis=-2)  # documented: aggregated pixel axis kept as length 1
            scl_ = np.expand_dims(scl_, axis=-2)
        if case["squeeze"]:
            ref_, scl_ = np.squeeze(ref_), np.squeeze(scl_)
        return ref_, scl_

    try:
        ref, scl = reference()
    except _Raised as e:
        return [e.args[0]]
    out = []
    if got.shape != ref.shape:
        out.append(Violation({"sub": "shape", "agg": str(agg), "squeeze": case["squeeze"]},
                             f"shape {got.shape}, expected {ref.shape}"))
    else:
        top = float(np.max(scl)) if scl.size and np.all(np.isfinite(scl)) else 1.0
        sc = np.maximum(scl, top * 1e-6)
        tol = 1e-7 if agg in ("std", "var", "ptp", "min", "max", "median") else 1e-9
        # a vector that is non-finite on both sides (observer at a documented singular point, e.g. a Dipole's own
        # position: +-inf, and nan once rotated) is equal for this property; finiteness itself is C15's subject
        both_nonfinite = (np.any(~np.isfinite(got), axis=-1, keepdims=True) & np.any(~np.isfinite(ref), axis=-1, keepdims=True)) * np.ones(3, dtype=bool)
        if np.any(both_nonfinite):
            ctx.label("nonfinite_on_both_sides_skipped")
        with np.errstate(invalid="ignore"):
            bad = ~(np.abs(got - ref) <= tol * sc) & ~both_nonfinite
        if np.any(bad):
            # condition-aware allowance (see C06): what an 8-ulp displacement of the pixels does
            noise = np.zeros_like(ref)
            for ax in range(3):
                for sg in core.NOISE_STEPS:
                    sh = np.zeros(3)
                    sh[ax] = sg
                    try:
                        r_s, _ = reference(sh)
                        noise = np.maximum(noise, core.probe_diff(r_s, ref))
                    except _Raised:
                        pass
            with np.errstate(invalid="ignore"):
                bad = ~(np.abs(got - ref) <= tol * sc + 20.0 * noise) & ~both_nonfinite
            if not np.any(bad):
                ctx.label("illconditioned_tolerated")
        if np.any(bad):
            err = float(np.nanmax(np.abs(got - ref) / sc))
            hands = sorted({s["handedness"] for s in case["sensors"]})
            kinds = sorted({s["path_kind"] for s in case["sensors"]})
            out.append(Violation({"sub": "value", "agg": "none" if agg is None else ("odd" if agg in ("mean", "sum", "median") else "even"),
                                  "magnitude": "O(1)" if err > 1e-3 else "small",
                                  "left_handed": "left" in hands,
                                  "rotating": any(k == "rotate" for k in kinds)},
                                 f"max rel deviation {err:.3g}; agg={agg} handedness={hands} sensor paths={kinds} "
                                 f"path lengths={lens} field={field}"))
    # ---- non-trivial rule
    nt = False
    shapes = {str(_pix(s)[1]) for s in case["sensors"]}
    if agg is not None and len(shapes) > 1:
        nt = True
        ctx.label("nt:different_pixel_shapes_with_agg")
    if any(s["path_kind"] == "rotate" and len(s["position"]) >= 2 for s in case["sensors"]):
        nt = True
        ctx.label("nt:rotating_sensor_path")
    if any(s["handedness"] == "left" for s in case["sensors"]):
        nt = True
        ctx.label("nt:left_handed")
    if len({s["path_kind"] for s in case["sensors"]}) > 1 or len(set(lens)) > 1:
        nt = True
        ctx.label("nt:mixed_path_kinds_or_lengths")
    if nt:
        ctx.mark_nontrivial(case)
        ctx.sample(case, nontrivial=True)
    else:
        ctx.sample(case)
    return out
