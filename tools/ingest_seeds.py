#!/venv/bin/python
"""Copy the deliverables of a seeding agent (<worktree>/_seed/<X>/{patch.diff,demo.py,notes.md}) to
seeded/<Cnn>_<X>/.  usage: ingest_seeds.py /tmp/seed2 C D"""
import os, shutil, sys
ROOT = os.path.dirname(os.path.dirname(os.path.abspath(__file__)))
base, letters = sys.argv[1], sys.argv[2:]
for prop in sorted(os.listdir(base)):
    for x in letters:
        src = os.path.join(base, prop, "_seed", x)
        if not os.path.exists(os.path.join(src, "patch.diff")):
            continue
        dst = os.path.join(ROOT, "seeded", f"{prop}_{x}")
        if os.path.exists(dst):
            continue
        os.makedirs(dst)
        for f in ("patch.diff", "demo.py", "notes.md"):
            if os.path.exists(os.path.join(src, f)):
                shutil.copy(os.path.join(src, f), dst)
        print("ingested", prop, x)
