#!/bin/bash
# all quick checks at several VERIF_SEED values on the unchanged tree; prints one line per (check, seed)
# usage: tools/quiet_runs.sh "1 2 3 4 5" [PROPS...]
cd "$(dirname "$0")/.." || exit 2
SEEDS=${1:-"1 2 3"}; shift
PROPS=${*:-C01 C02 C03 C04 C05 C06 C07 C08 C09 C10 C11 C12 C13 C14 C15 C16 C17 C18 C19 C20}
for S in $SEEDS; do
  for P in $PROPS; do
    out=$(VERIF_SEED=$S ./check "$P" --tier quick --no-evidence 2>&1); rc=$?
    echo "$P seed=$S exit=$rc $(echo "$out" | grep -c '^VIOLATION') violations; $(echo "$out" | tail -1 | sed 's/.*evaluations/evaluations/')"
    [ $rc -ne 0 ] && echo "$out" | grep -A2 '^VIOLATION' | cut -c1-300
  done
done
