#!/venv/bin/python
"""Port a seeded patch written against the original snapshot to /repo HEAD: the fix commit
dc07693 re-indented a block of getBH_level2 (now inside try:), so hunks of field_wrap_BH.py
that lie in that block get four more spaces on every line.  Usage: port_seed.py seeded/NAME"""
import re, sys, os
d = sys.argv[1]
src = open(os.path.join(d, "patch.diff")).read()
if not os.path.exists(os.path.join(d, "patch.orig.diff")):
    open(os.path.join(d, "patch.orig.diff"), "w").write(src)
else:
    src = open(os.path.join(d, "patch.orig.diff")).read()
LO, HI = 298, 404   # original line range that was re-indented
out, cur_file, lineno = [], None, None
for line in src.split("\n"):
    if line.startswith("diff --git"):
        cur_file = line.split(" b/")[-1]
        lineno = None
    m = re.match(r"@@ -(\d+)", line)
    if m:
        lineno = int(m.group(1))
        out.append(line)
        continue
    if cur_file and cur_file.endswith("field_wrap_BH.py") and lineno is not None and line[:1] in (" ", "+", "-") and not line.startswith(("+++", "---")):
        body = line[1:]
        if LO <= lineno <= HI and body.strip():
            line = line[0] + "    " + body
        if line[0] in (" ", "-"):
            lineno += 1
    out.append(line)
open(os.path.join(d, "patch.diff"), "w").write("\n".join(out))
