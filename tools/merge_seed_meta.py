#!/venv/bin/python
"""Merge seeded/needs.json (what was changed, what the change needs to manifest) and seeded/matrix.json (which checks
caught it) into every seeded/<name>/meta.json."""
import json, os
ROOT = os.path.dirname(os.path.dirname(os.path.abspath(__file__)))
needs = json.load(open(os.path.join(ROOT, "seeded", "needs.json")))
mp = os.path.join(ROOT, "seeded", "matrix.json")
matrix = json.load(open(mp)) if os.path.exists(mp) else {}
for name in sorted(needs):
    d = os.path.join(ROOT, "seeded", name)
    if not os.path.isdir(d):
        continue
    p = os.path.join(d, "meta.json")
    meta = json.load(open(p)) if os.path.exists(p) else {}
    meta["property"] = name.split("_")[0]
    meta["round"] = 1 if name[-1] in "AB" else 2
    meta["change"] = needs[name]["change"]
    meta["needs"] = needs[name]["needs"]
    if "status_on_head" in needs[name]:
        meta["status_on_head"] = needs[name]["status_on_head"]
    e = matrix.get(name)
    if e and "own" in e:
        meta.pop("checks_quick_tier", None)
        meta["checks_quick_tier_by_VERIF_SEED"] = e
        own = [v["result"] for v in e["own"].values()]
        meta["caught_by"] = sorted(([meta["property"]] if own.count("CAUGHT") else []) + [k for k, v in e.get("related", {}).items() if v["result"] == "CAUGHT"])
    json.dump(meta, open(p, "w"), indent=1)
print("merged", len(needs))
