#!/venv/bin/python
"""Run checks against a seeded change without touching /repo: the patch is applied to a
scratch worktree of /repo HEAD (removed afterwards) and the checks run with VERIF_REPO.
usage: try_seed.py NAME [--tier quick] [PROP ...]   (default PROP = the seed's property)
Prints one line per (seed, check): caught / missed, number of VIOLATION lines, time."""
import json, os, subprocess, sys, time
ROOT = os.path.dirname(os.path.dirname(os.path.abspath(__file__)))
args = sys.argv[1:]
tier = "quick"
if "--tier" in args:
    i = args.index("--tier"); tier = args[i + 1]; del args[i:i + 2]
base, patchname = "HEAD", "patch.diff"
if "--orig" in args:   # seed written against the original snapshot whose code path a later fix removed
    args.remove("--orig"); base = "302d0b7"
name, props = args[0], args[1:] or [args[0].split("_")[0]]
if base != "HEAD" and os.path.exists(f"{ROOT}/seeded/{name}/patch.orig.diff"):
    patchname = "patch.orig.diff"
wt = f"/var/tmp/try_{os.getpid()}"
subprocess.run(f"git -C /repo worktree add -q --detach {wt} {base}", shell=True, check=True)
try:
    r = subprocess.run(f"git apply {ROOT}/seeded/{name}/{patchname}", shell=True, cwd=wt, capture_output=True, text=True)
    if r.returncode:
        print(name, "PATCH DOES NOT APPLY", r.stderr[:200]); sys.exit(2)
    for p in props:
        t0 = time.time()
        env = dict(os.environ, VERIF_REPO=wt)
        r = subprocess.run([f"{ROOT}/check", p, "--tier", tier, "--no-evidence"], cwd=ROOT, env=env, capture_output=True, text=True)
        lines = [l for l in r.stdout.splitlines() if l.startswith("VIOLATION")]
        sigs = [l.strip() for l in r.stdout.splitlines() if l.strip().startswith("sig:")]
        print(f"{name} x {p} [{tier}]: exit={r.returncode} {'CAUGHT' if r.returncode == 1 else 'missed' if r.returncode == 0 else 'HARNESS-ERROR'} "
              f"violations={len(lines)} wall={time.time() - t0:.0f}s")
        for s in sigs[:4]:
            print("    ", s[:200])
        if r.returncode == 2:
            print(r.stdout[-800:])
finally:
    subprocess.run(f"git -C /repo worktree remove --force {wt}", shell=True)
