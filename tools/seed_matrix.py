#!/venv/bin/python
"""Run each seeded change against the quick check of its own property at several VERIF_SEED values and against the
related checks named in RELATED at VERIF_SEED=1, each in a scratch worktree of /repo HEAD (never in /repo).
Writes seeded/matrix.json and updates seeded/<name>/meta.json.
usage: seed_matrix.py [--seeds 1,2,3] [NAMES...]"""
import json, os, re, subprocess, sys
ROOT = os.path.dirname(os.path.dirname(os.path.abspath(__file__)))
RELATED = {"C01": ["C13", "C15"], "C02": ["C13", "C06"], "C03": ["C10", "C06"], "C05": ["C06", "C04"], "C06": ["C05"], "C07": ["C06"], "C10": ["C03", "C11"],
           "C13": ["C01", "C16"], "C14": ["C01", "C13", "C12"], "C15": ["C12"], "C17": ["C08"], "C18": ["C11"], "C16": ["C12"], "C20": ["C19"]}
args = sys.argv[1:]
seeds = [1, 2, 3]
if "--seeds" in args:
    i = args.index("--seeds"); seeds = [int(x) for x in args[i + 1].split(",")]; del args[i:i + 2]
out_path = None
if "--out" in args:
    i = args.index("--out"); out_path = args[i + 1]; del args[i:i + 2]
names = args or sorted(n for n in os.listdir(os.path.join(ROOT, "seeded")) if os.path.isdir(os.path.join(ROOT, "seeded", n)))
mp = out_path or os.path.join(ROOT, "seeded", "matrix.json")
matrix = json.load(open(mp)) if os.path.exists(mp) else {}


def run(name, props, seed):
    env = dict(os.environ, VERIF_SEED=str(seed))
    r = subprocess.run([os.path.join(ROOT, "tools", "try_seed.py"), name] + props, capture_output=True, text=True, env=env)
    res = {}
    for line in r.stdout.splitlines():
        m = re.match(r"(\S+) x (\S+) \[quick\]: exit=(\d) (\S+) violations=(\d+) wall=(\d+)s", line)
        if m:
            res[m.group(2)] = {"result": m.group(4), "violations": int(m.group(5)), "wall_s": int(m.group(6))}
        elif "PATCH DOES NOT APPLY" in line:
            res["_"] = {"result": "patch_does_not_apply_to_head"}
    return res


for name in names:
    prop = name.split("_")[0]
    entry = {"own": {}, "related": {}}
    for sd in seeds:
        r = run(name, [prop], sd)
        if "_" in r:
            entry = {"_": r["_"]}
            break
        entry["own"][str(sd)] = r.get(prop, {"result": "HARNESS-ERROR"})
    if "_" not in entry and RELATED.get(prop):
        entry["related"] = run(name, RELATED[prop], 1)
    matrix[name] = entry
    own = [v["result"] for v in entry.get("own", {}).values()]
    print(name, prop, f"{own.count('CAUGHT')}/{len(own)}", {k: v["result"] for k, v in entry.get("related", {}).items()}, entry.get("_", ""), flush=True)
    json.dump(matrix, open(mp, "w"), indent=1, sort_keys=True)
    d = os.path.join(ROOT, "seeded", name, "meta.json")
    meta = json.load(open(d)) if os.path.exists(d) else {}
    meta.pop("checks_quick_tier", None)
    meta["checks_quick_tier_by_VERIF_SEED"] = entry
    meta["caught_by"] = sorted(([prop] if own.count("CAUGHT") else []) + [k for k, v in entry.get("related", {}).items() if v["result"] == "CAUGHT"])
    json.dump(meta, open(d, "w"), indent=1)
