#!/venv/bin/python
"""Run each seeded change against the quick check of its own property (and the related checks listed
in RELATED) in a scratch worktree; write seeded/matrix.json and update seeded/<name>/meta.json."""
import json, os, re, subprocess, sys
ROOT = os.path.dirname(os.path.dirname(os.path.abspath(__file__)))
RELATED = {"C01": ["C13"], "C02": ["C13"], "C03": ["C10"], "C05": ["C06"], "C06": ["C05"], "C07": ["C06"], "C10": ["C03"],
           "C13": ["C01"], "C14": ["C01", "C13"], "C15": [], "C18": ["C11"], "C12": [], "C16": ["C12"]}
names = sys.argv[1:] or sorted(n for n in os.listdir(os.path.join(ROOT, "seeded")) if os.path.isdir(os.path.join(ROOT, "seeded", n)))
mp = os.path.join(ROOT, "seeded", "matrix.json")
matrix = json.load(open(mp)) if os.path.exists(mp) else {}
for name in names:
    prop = name.split("_")[0]
    props = [prop] + RELATED.get(prop, [])
    r = subprocess.run([os.path.join(ROOT, "tools", "try_seed.py"), name] + props, capture_output=True, text=True)
    res = {}
    for line in r.stdout.splitlines():
        m = re.match(r"(\S+) x (\S+) \[quick\]: exit=(\d) (\S+) violations=(\d+) wall=(\d+)s", line)
        if m:
            res[m.group(2)] = {"result": m.group(4), "violations": int(m.group(5)), "wall_s": int(m.group(6))}
        elif "PATCH DOES NOT APPLY" in line:
            res["_"] = {"result": "patch_does_not_apply_to_head"}
    matrix[name] = res
    print(name, {k: v["result"] for k, v in res.items()}, flush=True)
    json.dump(matrix, open(mp, "w"), indent=1, sort_keys=True)
    d = os.path.join(ROOT, "seeded", name, "meta.json")
    meta = json.load(open(d)) if os.path.exists(d) else {}
    meta["checks_quick_tier"] = res
    json.dump(meta, open(d, "w"), indent=1)
