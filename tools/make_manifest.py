#!/venv/bin/python
"""Regenerate /verif/MANIFEST.json from the property modules that exist (vf/props/cNN.py).
A property without a module is listed under not_applicable with the reason given in
tools/not_claimed.json (kept current by hand)."""
import importlib, json, os, sys
ROOT = os.path.dirname(os.path.dirname(os.path.abspath(__file__)))
sys.path.insert(0, ROOT)
os.environ.setdefault("VERIF_REPO", "/repo")
sys.path.insert(0, os.environ["VERIF_REPO"])
props = [json.loads(l) for l in open(os.path.join(ROOT, "properties.jsonl"))]
not_claimed = json.load(open(os.path.join(ROOT, "tools", "not_claimed.json")))
checks, na = [], []
for p in props:
    pid = p["id"]
    path = os.path.join(ROOT, "vf", "props", pid.lower() + ".py")
    if not os.path.exists(path) or pid in not_claimed:
        na.append({"property_id": pid, "reason": not_claimed.get(pid, "check not built yet (work in progress, see DESIGN.md section 8)")})
        continue
    m = importlib.import_module(f"vf.props.{pid.lower()}")
    checks.append({
        "property_id": pid,
        "quick_cmd": f"./check {pid} --tier quick",
        "thorough_cmd": f"./check {pid} --tier thorough",
        "evidence_file": f"evidence/{pid}.json",
        "replay_cmd_template": f"./check {pid} --replay {{path}}",
        "engine": "hypothesis",
        "level_claimed": {"category": m.LEVEL, "text": getattr(m, "LEVEL_TEXT", m.RULE), "design_ref": f"DESIGN.md section 6, {pid}"},
        "level_note": getattr(m, "LEVEL_NOTE", "; ".join(getattr(m, "ASSUMPTIONS", [])) or "oracle and generators as described in DESIGN.md"),
        "technique": getattr(m, "TECHNIQUE", "property-based testing (Hypothesis) against an explicit oracle")
        + ("; thorough tier adds a coverage-guided fuzzing campaign (atheris/libFuzzer) on the same harness and oracle" if m.budget("thorough").get("fuzz_runs") else ""),
    })
fuzzed = [c["property_id"] for c in checks if "atheris" in c["technique"]]
man = {
    "version": 1,
    "setup_cmd": "./setup.sh",
    "hooks": {
        "guard": "MAGPYLIB_VERIF",
        "enable": "no hooks are needed: checks import magpylib straight from /repo's working tree (pure Python, no build step); the guard name is reserved and unused",
        "baseline_off_cmd": "cd /repo && /venv/bin/python -m pytest -ra -q -p no:cacheprovider --timeout=900 --continue-on-collection-errors",
        "source_commits": [],
        "add_only": True,
    },
    "engines": [
        {"name": "hypothesis", "path": "vf/worker.py", "serves_properties": [c["property_id"] for c in checks],
         "kind_free_text": "Hypothesis 6.168 @given strategies and RuleBasedStateMachine, 16 seeded shards per check, collect-and-continue over root-cause signatures, replay files as regression tier"},
        {"name": "atheris", "path": "vf/worker.py", "serves_properties": fuzzed,
         "kind_free_text": "atheris 3.1 (libFuzzer) as a second driver in the thorough tier: bytes are decoded by the property's Hypothesis strategy (fuzz_one_input), same run_case / signature / known-finding path; magpylib imported under instrument_imports; optional (skipped with a note in the evidence if atheris cannot be imported)"},
    ],
    "checks": checks,
    "not_applicable": na,
    "notes": "Entry point ./check <ID> --tier quick|thorough [--replay FILE]; exit 0/1/2 = held / violation / harness error. Known findings: known_findings.json. Seeded changes used for sensitivity: seeded/<id>/. See DESIGN.md.",
}
json.dump(man, open(os.path.join(ROOT, "MANIFEST.json"), "w"), indent=1)
print(len(checks), "checks;", len(na), "not claimed")
