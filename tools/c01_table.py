#!/venv/bin/python
"""Aggregate C01 calibration records (VERIF_C01_RECORD dir) into per-class tables of the largest
relative deviation per bucket of t/L (distance to nearest special set incl. prolongations) and
d/L (distance to surface).  With --write, store 100x envelope into tolerances.json; --merge combines with the committed table
(bucketwise maximum); --only=Class replaces / merges one class only (after a repair of its numerics)."""
import glob, json, sys, os
import numpy as np
sys.path.insert(0, os.path.dirname(os.path.dirname(os.path.abspath(__file__))))
recdir = sys.argv[1]
CAP = 0.5  # an envelope above 50 % would let a field of zero pass: such buckets are findings, not tolerances
recs = [json.loads(l) for f in glob.glob(os.path.join(recdir, "*.jsonl")) for l in open(f)]
def tb(t): return "exact" if t <= 0 else str(int(np.clip(np.floor(np.log10(t)), -17, 3)))
def db(d): return str(int(np.clip(np.floor(np.log10(max(d, 1e-30))), -4, 4)))
tab = {}
def env(m):
    """envelope of a bucket whose largest calibration error is m: 100 x m, at least 1e-6, at most CAP;
    a bucket in which the library is already off by more than CAP is unusable for comparison: 'unchecked' (-1)"""
    if m > CAP:
        return -1.0
    return float(min(CAP, max(1e-6, 100 * m)))


def known(r):
    """records inside the scope of an open finding do not calibrate the envelope"""
    if r["cls"] == "CylinderSegment" and r.get("raxis", 1e30) < 1e-3:
        return True
    return False


nknown = sum(1 for r in recs if known(r))
print("records:", len(recs), "in known-finding scopes (excluded):", nknown)
recs = [r for r in recs if not known(r)]
for r in recs:
    c = tab.setdefault(r["cls"], {"t": {}, "d": {}, "n": 0})
    c["n"] += 1
    # near-field records calibrate the t table, far-field records (d >= 3 L) the d table
    if r["d"] >= 3:
        k = db(r["d"]); c["d"].setdefault("aligned" if r["t"] < 1e-3 * r["d"] else "free", {}).setdefault(k, []).append(r["err"])
    else:
        k = tb(r["t"]); c["t"].setdefault(r.get("near", "surface"), {}).setdefault(k, []).append(r["err"])
for cls in sorted(tab):
    print(cls, "n =", tab[cls]["n"])
    for near in sorted(tab[cls]["t"]):
        keys = sorted(tab[cls]["t"][near], key=lambda x: (x != "exact", int(x) if x != "exact" else 0))
        print("    t", near, " ".join(f"[{k}: {max(tab[cls]['t'][near][k]):.1e}/{len(tab[cls]['t'][near][k])}]" for k in keys))
    for al in sorted(tab[cls]["d"]):
        keys = sorted(tab[cls]["d"][al], key=int)
        print("    d", al, " ".join(f"[{k}: {max(tab[cls]['d'][al][k]):.1e}/{len(tab[cls]['d'][al][k])}]" for k in keys))
if "--write" in sys.argv:
    out = {}
    for cls, c in tab.items():
        out[cls] = {"default": 1e-6, "t": {}, "d": {}}
        for near, buckets in c["t"].items():
            out[cls]["t"][near] = {}
            ks = sorted(buckets, key=lambda x: (x != "exact", int(x) if x != "exact" else 0))
            raw = {k: max(buckets[k]) for k in ks}
            for k in ks:
                # widen by the neighbouring buckets (one decade each way); the exact set ("0") stands alone
                vals = [raw[k]]
                if k != "exact":
                    vals += [raw[j] for j in (str(int(k) - 1), str(int(k) + 1)) if j in raw]
                out[cls]["t"][near][k] = env(max(vals))
        for al, buckets in c["d"].items():
            out[cls]["d"][al] = {k: env(max(v)) for k, v in buckets.items()}
    p = os.path.join(os.path.dirname(os.path.dirname(os.path.abspath(__file__))), "tolerances.json")
    cur = json.load(open(p)) if os.path.exists(p) else {}
    ENV_CAP = 0.1  # an envelope above 0.1 means the library itself was off by more than 1e-3: no envelope (-1)
    only = [a.split("=", 1)[1] for a in sys.argv if a.startswith("--only=")]  # e.g. --only=Polyline after a repair of that class
    if "--merge" in sys.argv and "C01" in cur:
        # combine with the committed table bucket by bucket (maximum; -1 wins): the deviations are heavy-tailed and a
        # second calibration run must not tighten what an earlier one measured
        old = cur["C01"]
        for cls in set(old) | set(out):
            if only and cls not in only:
                out[cls] = old.get(cls, out.get(cls))
                continue
            o, n = old.get(cls, {}), out.setdefault(cls, {"default": 1e-6, "t": {}, "d": {}})
            for kind in ("t", "d"):
                for near in set(o.get(kind, {})) | set(n.get(kind, {})):
                    tgt = n[kind].setdefault(near, {})
                    for k in set(o.get(kind, {}).get(near, {})) | set(tgt):
                        vals = [v for v in (o.get(kind, {}).get(near, {}).get(k), tgt.get(k)) if v is not None]
                        tgt[k] = -1.0 if any(v < 0 for v in vals) else max(vals)
    elif only and "C01" in cur:
        out = {**cur["C01"], **{c: out[c] for c in only if c in out}}
    for cls, tabc in out.items():
        for kind in ("t", "d"):
            for near, bs in tabc.get(kind, {}).items():
                for k, v in bs.items():
                    if v > ENV_CAP:
                        bs[k] = -1.0
    cur["C01"] = out
    cur["C01_note"] = ("envelope per class x nearest special set x decade of t/L (near field, d < 3 L) and per class x aligned/free x decade of d/L (far field): "
                       "100 x the largest deviation between library and quadrature seen in calibration on the unchanged tree (several runs combined with --merge, "
                       "bucketwise maximum; neighbouring decades widen each other), floor 1e-6; -1 = the library itself was off by more than 1e-3 there "
                       "(envelope would exceed 0.1): no envelope, C01 asserts only the order of magnitude in that bucket; see DESIGN.md 4.6")
    json.dump(cur, open(p, "w"), indent=1, sort_keys=True)
    print("written", p)
