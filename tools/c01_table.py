#!/venv/bin/python
"""Aggregate C01 calibration records (VERIF_C01_RECORD dir) into per-class tables of the largest
relative deviation per bucket of t/L (distance to nearest special set incl. prolongations) and
d/L (distance to surface).  With --write, store 100x envelope into tolerances.json."""
import glob, json, sys, os
import numpy as np
sys.path.insert(0, os.path.dirname(os.path.dirname(os.path.abspath(__file__))))
recdir = sys.argv[1]
recs = [json.loads(l) for f in glob.glob(os.path.join(recdir, "*.jsonl")) for l in open(f)]
def tb(t): return "0" if t <= 0 else str(int(np.clip(np.floor(np.log10(t)), -17, 3)))
def db(d): return str(int(np.clip(np.floor(np.log10(max(d, 1e-30))), -4, 4)))
tab = {}
for r in recs:
    c = tab.setdefault(r["cls"], {"t": {}, "d": {}, "n": 0})
    c["n"] += 1
    # near-field records calibrate the t table, far-field records (d >= 3 L) the d table
    if r["d"] >= 3:
        k = db(r["d"]); c["d"].setdefault(k, []).append(r["err"])
    else:
        k = tb(r["t"]); c["t"].setdefault(k, []).append(r["err"])
for cls in sorted(tab):
    print(cls, "n =", tab[cls]["n"])
    for which in ("t", "d"):
        keys = sorted(tab[cls][which], key=lambda x: (x != "0", int(x)))
        print("   ", which, " ".join(f"[{k}: {max(tab[cls][which][k]):.1e}/{len(tab[cls][which][k])}]" for k in keys))
if "--write" in sys.argv:
    out = {}
    for cls, c in tab.items():
        out[cls] = {"default": 1e-6, "t": {}, "d": {}}
        for which in ("t", "d"):
            for k, v in c[which].items():
                out[cls][which][k] = float(min(1.0, max(1e-6, 100 * max(v))))
    p = os.path.join(os.path.dirname(os.path.dirname(os.path.abspath(__file__))), "tolerances.json")
    cur = json.load(open(p)) if os.path.exists(p) else {}
    cur["C01"] = out
    cur["C01_note"] = "envelope = min(1, max(1e-6, 100 x largest relative deviation from the quadrature oracle seen per class and bucket on the unchanged tree)); buckets: floor(log10(t/L)) for d < 3 L, floor(log10(d/L)) beyond; see DESIGN.md 4.6"
    json.dump(cur, open(p, "w"), indent=1, sort_keys=True)
    print("written", p)
