#!/venv/bin/python
"""Confirm a seeded change (seeded/<name>/patch.diff + demo.py) independently:
  - patch applies to /repo HEAD (in a scratch worktree under /var/tmp, removed afterwards)
  - demo.py exits 0 on the clean tree, non-zero with the patch
  - the repository test suite result with the patch equals the baseline (1096 passed, 12 failed)
Writes seeded/<name>/meta.json (keeps hand-written keys such as 'needs', 'caught_by')."""
import json, os, re, subprocess, sys

ROOT = os.path.dirname(os.path.dirname(os.path.abspath(__file__)))
WT = "/var/tmp/seedcheck_%d" % os.getpid()


def sh(cmd, cwd=None, env=None, timeout=1200):
    p = subprocess.run(cmd, shell=True, cwd=cwd, env=env, capture_output=True, text=True, timeout=timeout)
    return p.returncode, p.stdout + p.stderr


def main(names):
    rc, out = sh(f"git -C /repo worktree add -q --detach {WT} HEAD")
    if rc:
        print(out)
        return 2
    env = dict(os.environ, PYTHONPATH=WT, PYTHONDONTWRITEBYTECODE="1", MPLBACKEND="Agg")
    _, outb = sh("/venv/bin/python -m pytest -q -p no:cacheprovider 2>&1 | tail -1", cwd=WT, env=env)
    mb = re.search(r"(\d+) failed, (\d+) passed", outb)
    baseline = mb.group(0) if mb else outb[-100:]
    print("baseline of /repo HEAD:", baseline, flush=True)
    try:
        for name in names:
            d = os.path.join(ROOT, "seeded", name)
            meta_p = os.path.join(d, "meta.json")
            meta = json.load(open(meta_p)) if os.path.exists(meta_p) else {}
            meta["property"] = name.split("_")[0]
            patch = os.path.join(d, "patch.diff")
            rc, out = sh(f"git apply --check {patch}", cwd=WT)
            meta["applies_to_repo_head"] = rc == 0
            if rc:
                meta["apply_error"] = out[-500:]
                json.dump(meta, open(meta_p, "w"), indent=1)
                print(name, "DOES NOT APPLY")
                continue
            rc0, _ = sh(f"/venv/bin/python {d}/demo.py", cwd=WT, env=env)
            sh(f"git apply {patch}", cwd=WT)
            rc1, out1 = sh(f"/venv/bin/python {d}/demo.py", cwd=WT, env=env)
            rct, outt = sh("/venv/bin/python -m pytest -q -p no:cacheprovider 2>&1 | tail -1", cwd=WT, env=env)
            sh("git checkout -- .", cwd=WT)
            m = re.search(r"(\d+) failed, (\d+) passed", outt)
            meta["demo_exit_clean"] = rc0
            meta["demo_exit_patched"] = rc1
            meta["suite_with_patch"] = m.group(0) if m else outt[-200:]
            meta["suite_baseline_head"] = baseline
            meta["confirmed"] = bool(rc0 == 0 and rc1 != 0 and m and m.group(0) == baseline)
            meta["ran"] = "tools/verify_seed.py: git apply in scratch worktree of /repo HEAD; demo.py clean/patched; full pytest with patch"
            json.dump(meta, open(meta_p, "w"), indent=1)
            print(name, "confirmed" if meta["confirmed"] else "NOT CONFIRMED", rc0, rc1, meta["suite_with_patch"], flush=True)
    finally:
        sh(f"git -C /repo worktree remove --force {WT}")
    return 0


if __name__ == "__main__":
    names = sys.argv[1:] or sorted(n for n in os.listdir(os.path.join(ROOT, "seeded")) if os.path.isdir(os.path.join(ROOT, "seeded", n)))
    sys.exit(main(names))
