#!/bin/bash
# run every check of one tier in sequence; one log per property under $OUT (default /var/tmp/runall_<tier>)
# usage: tools/run_all.sh quick|thorough [PROPS...]
cd "$(dirname "$0")/.." || exit 2
TIER=${1:-quick}; shift
OUT=${OUT:-/var/tmp/runall_$TIER}; mkdir -p "$OUT"
PROPS=${*:-C01 C02 C03 C04 C05 C06 C07 C08 C09 C10 C11 C12 C13 C14 C15 C16 C17 C18 C19 C20}
for P in $PROPS; do
  ./check "$P" --tier "$TIER" > "$OUT/$P.log" 2>&1
  echo "$P exit=$? $(tail -1 "$OUT/$P.log")"
done
