#!/bin/bash
# Offline setup after a fresh restore: make sure hypothesis is importable by /venv/bin/python.
# Nothing is built: the checks import magpylib from /repo's working tree directly.
cd "$(dirname "$0")" || exit 1
PY=${VERIF_PYTHON:-/venv/bin/python}
if ! "$PY" -c "import hypothesis" 2>/dev/null; then
  "$PY" -m pip install --quiet --no-index --find-links /opt/veriftools/wheels --target .deps hypothesis || exit 1
fi
PYTHONPATH="$PWD/.deps" "$PY" -c "import hypothesis, numpy, scipy; print('setup ok: hypothesis', hypothesis.__version__)"
