#!/bin/bash
# Offline setup after a fresh restore: make sure hypothesis (required) and atheris (optional second
# driver of the thorough tiers) are importable by /venv/bin/python.  Third-party packages go to
# /verif/.deps (git-ignored), never into /venv.  Nothing is built: the checks import magpylib from
# /repo's working tree directly.
cd "$(dirname "$0")" || exit 1
PY=${VERIF_PYTHON:-/venv/bin/python}
WH=/opt/veriftools/wheels
export PIP_NO_INDEX=1 PIP_DISABLE_PIP_VERSION_CHECK=1
if ! PYTHONPATH="$PWD/.deps" "$PY" -c "import hypothesis" 2>/dev/null; then
  "$PY" -m pip install --quiet --no-index --find-links $WH --target .deps hypothesis || exit 1
fi
if ! PYTHONPATH="$PWD/.deps" "$PY" -c "import atheris" 2>/dev/null; then
  "$PY" -m pip install --quiet --no-index --no-deps --find-links $WH --target .deps atheris \
    || echo "setup: atheris not installable here; thorough tiers run with Hypothesis alone"
fi
[ "$1" = "-q" ] && exit 0
PYTHONPATH="$PWD/.deps" "$PY" -c "import hypothesis, numpy, scipy; print('setup ok: hypothesis', hypothesis.__version__)"
PYTHONPATH="$PWD/.deps" "$PY" -c "import atheris; print('setup ok: atheris available')" 2>/dev/null || true
